/-
  Languages (sets of (word, value) pairs) for the aspif grammar, and the relation `Spec p L` between a stream parser of the
  reader model and a language:
    sound    : whatever the parser accepts is a word of the (lenient) language, with exactly that value, and the parser consumed
               exactly that word;
    complete : every word of the (strict) language, followed by something that is not a digit, is accepted with its value, and
               exactly the word is consumed.
  `L false` is the lenient reading (what the reader tolerates), `L true` the strict one (whitespace-separated tokens).
-/
import PotasscoVerif.Props.C03
import PotasscoVerif.Lemmas.AspifRoundTrip
namespace PotasscoVerif.AspifLang
open PotasscoVerif PotasscoVerif.CharStream PotasscoVerif.AspifIn PotasscoVerif.Decimal
open PotasscoVerif.BufferedStream (IntRes isWs isDigit I64MAX)
open PotasscoVerif.C03 (denoted intIn_token)

abbrev Lang (α : Type) := List Nat → α → Prop

def Filler (ws : List Nat) : Prop := ∀ c ∈ ws, isWs c = true
def Digits (ds : List Nat) : Prop := ds ≠ [] ∧ ∀ c ∈ ds, isDigit c = true

/-- a number token: filler, optional sign, digits; its value is the denoted number and lies in the field.
    strict + `lead`: the token is set off from what precedes it (filler or sign). -/
def num (s lead : Bool) (lo hi : Int) : Lang Int := fun w v =>
  ∃ ws sg ds, w = ws ++ (Sign.text sg ++ ds) ∧ Filler ws ∧ Digits ds ∧ v = denoted sg ds ∧ lo ≤ v ∧ v ≤ hi ∧
    (s = true → lead = true → ws ≠ [] ∨ sg ≠ .none)

def ret {α : Type} (x : α) : Lang α := fun w v => w = [] ∧ v = x
def seq {α β : Type} (L1 : Lang α) (L2 : α → Lang β) : Lang β := fun w y => ∃ w1 w2 x, w = w1 ++ w2 ∧ L1 w1 x ∧ L2 x w2 y
def none' {α : Type} : Lang α := fun _ _ => False

/-- the words of the strict language never start with a digit (so they may follow a number) -/
def Safe {α : Type} (L : Bool → Lang α) : Prop := ∀ w x k, L true w x → NDS k → NDS (w ++ k)

structure Spec {α : Type} (p : P α) (L : Bool → Lang α) : Prop where
  sound : ∀ a x a', p a = .ok (x, a') → ∃ w, a.rest = w ++ a'.rest ∧ L false w x
  complete : ∀ w x a k, L true w x → a.rest = w ++ k → NDS k → ∃ a', p a = .ok (x, a') ∧ a'.rest = k
  safe : Safe L

theorem Safe.ret {α : Type} (x : α) : Safe (fun _ => ret x) := by
  intro w y k hw hk; obtain ⟨e, _⟩ := hw; subst e; simpa using hk
theorem Safe.none' {α : Type} : Safe (fun _ => (none' : Lang α)) := by intro w y k hw; exact absurd hw id
theorem Safe.seq {α β : Type} {L1 : Bool → Lang α} {L2 : α → Bool → Lang β} (h1 : Safe L1) (h2 : ∀ x, Safe (L2 x)) :
    Safe (fun s => seq (L1 s) (fun x => L2 x s)) := by
  intro w y k hw hk
  obtain ⟨w1, w2, x, ew, l1, l2⟩ := hw
  subst ew
  rw [List.append_assoc]
  exact h1 w1 x _ l1 (h2 x w2 y k l2 hk)
theorem Safe.ite {α : Type} (c : Prop) [Decidable c] {L1 L2 : Bool → Lang α} (h1 : Safe L1) (h2 : Safe L2) :
    Safe (fun s => if c then L1 s else L2 s) := by
  by_cases h : c <;> simp only [h, ↓reduceIte]
  · exact h1
  · exact h2

theorem num_nds {lo hi : Int} {w : List Nat} {v : Int} (hw : num true true lo hi w v) (k : List Nat) : NDS (w ++ k) := by
  obtain ⟨ws, sg, ds, ew, hws, _, _, _, _, hl⟩ := hw
  subst ew
  intro c r e
  cases ws with
  | cons x xs =>
    simp only [List.cons_append, List.cons.injEq] at e
    have := hws x (by simp); rw [e.1] at this
    simp [isWs] at this; simp [isDigit]; omega
  | nil =>
    rcases hl rfl rfl with h | h
    · exact absurd rfl h
    · cases sg with
      | none => exact absurd rfl h
      | plus => simp only [Sign.text, List.nil_append, List.cons_append, List.cons.injEq] at e; rw [← e.1]; rfl
      | minus => simp only [Sign.text, List.nil_append, List.cons_append, List.cons.injEq] at e; rw [← e.1]; rfl

theorem Safe.num (lo hi : Int) : Safe (fun s => num s true lo hi) := fun _ _ k hw _ => num_nds hw k

theorem Spec.bind {α β : Type} {p : P α} {g : α × AS → Except Nat (β × AS)} {L1 : Bool → Lang α} {L2 : α → Bool → Lang β}
    (hp : Spec p L1) (hg : ∀ x, Spec (fun a' => g (x, a')) (L2 x)) :
    Spec (fun a => p a >>= g) (fun s => seq (L1 s) (fun x => L2 x s)) := by
  have hs : ∀ x, Safe (L2 x) := fun x => (hg x).safe
  refine ⟨?_, ?_, Safe.seq hp.safe hs⟩
  · intro a y a' e
    cases h : p a with
    | error l => rw [h] at e; cases e
    | ok r =>
      obtain ⟨x, a1⟩ := r
      rw [h] at e
      obtain ⟨w1, e1, l1⟩ := hp.sound a x a1 h
      obtain ⟨w2, e2, l2⟩ := (hg x).sound a1 y a' e
      exact ⟨w1 ++ w2, by rw [e1, e2, List.append_assoc], w1, w2, x, rfl, l1, l2⟩
  · intro w y a k hw hr hk
    obtain ⟨w1, w2, x, ew, l1, l2⟩ := hw
    subst ew
    obtain ⟨a1, e1, r1⟩ := hp.complete w1 x a (w2 ++ k) l1 (by rw [hr, List.append_assoc]) (hs x w2 y k l2 hk)
    obtain ⟨a2, e2, r2⟩ := (hg x).complete w2 y a1 k l2 r1 hk
    refine ⟨a2, ?_, r2⟩
    show (p a >>= g) = _
    rw [e1]; exact e2

theorem Spec.pure {α : Type} (x : α) : Spec (fun a => (Pure.pure (x, a) : Except Nat (α × AS))) (fun _ => ret x) := by
  refine ⟨?_, ?_, Safe.ret x⟩
  · intro a y a' e; cases e; exact ⟨[], rfl, rfl, rfl⟩
  · intro w y a k hw hr _; obtain ⟨e1, e2⟩ := hw; subst e1; subst e2; exact ⟨a, rfl, by simpa using hr⟩

theorem Spec.ok {α : Type} (x : α) : Spec (fun a => (.ok (x, a) : Except Nat (α × AS))) (fun _ => ret x) := Spec.pure x

theorem Spec.error {α : Type} : Spec (fun a => (.error a.line : Except Nat (α × AS))) (fun _ => none') := by
  refine ⟨?_, ?_, Safe.none'⟩
  · intro a y a' e; cases e
  · intro w y a k hw; exact absurd hw id

theorem Spec.ite {α : Type} (c : Prop) [Decidable c] {p q : P α} {L1 L2 : Bool → Lang α} (hp : Spec p L1) (hq : Spec q L2) :
    Spec (fun a => if c then p a else q a) (fun s => if c then L1 s else L2 s) := by
  by_cases h : c <;> simp only [h, ↓reduceIte]
  · exact hp
  · exact hq

/-! ### inversion of the stream primitives -/
theorem skipWsF_inv : ∀ (f : Nat) (a : AS), ∃ ws, a.rest = ws ++ (AS.skipWsF f a).rest ∧ Filler ws := by
  intro f
  induction f with
  | zero => intro a; exact ⟨[], rfl, (by intro c hc; cases hc)⟩
  | succ f ih =>
    intro a
    unfold AS.skipWsF
    split
    · rename_i hw
      cases hr : a.rest with
      | nil => simp [AS.peek, hr, isWs] at hw
      | cons c r =>
        have hc : isWs c = true := by simpa [AS.peek, hr] using hw
        obtain ⟨ws, e, hws⟩ := ih a.get.2
        rcases get_rest_ws a c r hr hc with h1 | ⟨h13, r', h2, h3⟩
        · refine ⟨c :: ws, by rw [← h1, e]; rfl, ?_⟩
          intro x hx; simp only [List.mem_cons] at hx; rcases hx with h | h; exact h ▸ hc; exact hws x h
        · refine ⟨13 :: 10 :: ws, by rw [h2, ← h3, e, h13]; rfl, ?_⟩
          intro x hx; simp only [List.mem_cons] at hx
          rcases hx with h | h | h
          · subst h; rfl
          · subst h; rfl
          · exact hws x h
    · exact ⟨[], rfl, (by intro c hc; cases hc)⟩

theorem skipWs_inv (a : AS) : ∃ ws, a.rest = ws ++ a.skipWs.rest ∧ Filler ws := by
  unfold AS.skipWs
  exact skipWsF_inv _ { a with canUnget := false }

theorem digitRun_inv (l : List Nat) : l = (digitRun l).1 ++ (digitRun l).2 ∧ (∀ c ∈ (digitRun l).1, isDigit c = true) ∧ NDS (digitRun l).2 := by
  induction l with
  | nil => exact ⟨rfl, (by intro c hc; cases hc), NDS_nil⟩
  | cons c r ih =>
    simp only [digitRun]
    split
    · rename_i hc
      refine ⟨by simp only [List.cons_append]; rw [← ih.1], ?_, ih.2.2⟩
      intro x hx; simp only [List.mem_cons] at hx; rcases hx with h | h; exact h ▸ hc; exact ih.2.1 x h
    · rename_i hc
      exact ⟨rfl, (by intro x hx; cases hx), NDS_cons (by simpa using hc)⟩

/-- whatever `matchInt` accepts is filler, an optional sign and a non-empty run of digits that ends before a non-digit -/
theorem matchInt_inv (a : AS) (v : Int) (a' : AS) (h : a.matchInt false = (.val v, a')) :
    ∃ ws sg ds, a.rest = ws ++ (Sign.text sg ++ (ds ++ a'.rest)) ∧ Filler ws ∧ Digits ds ∧ v = Sign.apply sg (min (val ds 0) I64MAX) ∧ NDS a'.rest := by
  obtain ⟨ws, ews, hws⟩ := skipWs_inv a
  unfold AS.matchInt at h
  simp only [Bool.false_eq_true, ↓reduceIte] at h
  generalize a.skipWs = a0 at h ews
  unfold AS.matchIntCore at h
  -- the state after the optional sign
  have key : ∀ (a1 : AS) (sgc : Nat), AS.matchIntDigits a1 sgc = (.val v, a') →
      ∃ ds, a1.rest = ds ++ a'.rest ∧ Digits ds ∧ v = (if sgc == 45 then -((min (val ds 0) I64MAX : Nat) : Int) else ((min (val ds 0) I64MAX : Nat) : Int)) ∧ NDS a'.rest := by
    intro a1 sgc hm
    unfold AS.matchIntDigits at hm
    split at hm
    · cases hm
    · rename_i hd
      have hinv := digitRun_inv a1.rest
      have ha' : a'.rest = (digitRun a1.rest).2 := by cases hm; rfl
      have hv : v = (if sgc == 45 then -((min (val (digitRun a1.rest).1 0) I64MAX : Nat) : Int) else ((min (val (digitRun a1.rest).1 0) I64MAX : Nat) : Int)) := by
        cases hm; rfl
      refine ⟨(digitRun a1.rest).1, by rw [ha']; exact hinv.1, ⟨?_, hinv.2.1⟩, hv, by rw [ha']; exact hinv.2.2⟩
      intro hnil
      cases hr : a1.rest with
      | nil => simp [AS.peek, hr, isDigit] at hd
      | cons c r =>
        have hc : isDigit c = true := by simpa [AS.peek, hr] using hd
        rw [hr] at hnil; simp [digitRun, hc] at hnil
  by_cases hsg : (a0.peek == 43 || a0.peek == 45) = true
  · simp only [hsg, ↓reduceIte] at h
    obtain ⟨ds, e1, hds, hv, hnd⟩ := key _ _ h
    cases hr : a0.rest with
    | nil => simp [AS.peek, hr] at hsg
    | cons c r =>
      have hc : a0.peek = c := by simp [AS.peek, hr]
      simp only [hr, List.tail_cons] at e1
      rw [hc] at hsg hv
      by_cases h43 : c = 43
      · subst h43
        exact ⟨ws, .plus, ds, by rw [ews, hr, e1]; rfl, hws, hds, by simpa [Sign.apply] using hv, hnd⟩
      · have h45 : c = 45 := by simp at hsg; omega
        subst h45
        exact ⟨ws, .minus, ds, by rw [ews, hr, e1]; rfl, hws, hds, by simpa [Sign.apply] using hv, hnd⟩
  · have hsg' : (a0.peek == 43 || a0.peek == 45) = false := by simpa using hsg
    simp only [hsg', Bool.false_eq_true, ↓reduceIte] at h
    obtain ⟨ds, e1, hds, hv, hnd⟩ := key _ _ h
    have h45 : (a0.peek == 45) = false := by simp at hsg'; simp; omega
    rw [h45] at hv
    exact ⟨ws, .none, ds, by rw [ews, e1]; rfl, hws, hds, by simpa [Sign.apply] using hv, hnd⟩

theorem intIn_sound (lead : Bool) (lo hi : Int) (hlo : -(I64MAX : Int) < lo) (hhi : hi < I64MAX) (a : AS) (v : Int) (a' : AS)
    (h : AspifIn.intIn lo hi a = .ok (v, a')) : ∃ w, a.rest = w ++ a'.rest ∧ num false lead lo hi w v := by
  unfold AspifIn.intIn at h
  split at h
  · rename_i v' a0 hm
    split at h
    · rename_i hrange
      cases h
      obtain ⟨ws, sg, ds, e, hws, hds, hv, _⟩ := matchInt_inv a v a' hm
      have hval : val ds 0 ≤ I64MAX := by
        by_cases hle : val ds 0 ≤ I64MAX
        · exact hle
        · exfalso
          have hm' : min (val ds 0) I64MAX = I64MAX := Nat.min_eq_right (by omega)
          rw [hm'] at hv
          cases sg <;> simp [Sign.apply] at hv <;> omega
      rw [Nat.min_eq_left hval] at hv
      exact ⟨ws ++ (Sign.text sg ++ ds), by rw [e]; simp, ws, sg, ds, rfl, hws, hds, hv, hrange.1, hrange.2, by intro h; cases h⟩
    · cases h
  · cases h

theorem intIn_complete (lead : Bool) (lo hi : Int) (hlo : -(I64MAX : Int) < lo) (hhi : hi < I64MAX) (w : List Nat) (v : Int) (a : AS) (k : List Nat)
    (hw : num true lead lo hi w v) (hr : a.rest = w ++ k) (hk : NDS k) : ∃ a', AspifIn.intIn lo hi a = .ok (v, a') ∧ a'.rest = k := by
  obtain ⟨ws, sg, ds, ew, hws, hds, hv, h1, h2, _⟩ := hw
  subst ew; subst hv
  exact (intIn_token lo hi a sg ds ws k (by rw [hr]; simp) hws hds.2 hds.1 hk hlo hhi).1 ⟨h1, h2⟩

theorem Spec.intIn (lo hi : Int) (hlo : -(I64MAX : Int) < lo) (hhi : hi < I64MAX) : Spec (AspifIn.intIn lo hi) (fun s => num s true lo hi) :=
  ⟨intIn_sound true lo hi hlo hhi, intIn_complete true lo hi hlo hhi, Safe.num lo hi⟩

theorem Spec.of_iff {α : Type} {p : P α} {L L' : Bool → Lang α} (h : Spec p L) (e : ∀ s w x, L' s w x ↔ L s w x) : Spec p L' := by
  refine ⟨?_, ?_, ?_⟩
  · intro a x a' hp; obtain ⟨w, e1, hl⟩ := h.sound a x a' hp; exact ⟨w, e1, (e _ _ _).mpr hl⟩
  · intro w x a k hw; exact h.complete w x a k ((e _ _ _).mp hw)
  · intro w x k hw; exact h.safe w x k ((e _ _ _).mp hw)

/-! ### the field languages -/
/-- a non-negative number with upper bound `m` -/
def numN (s lead : Bool) (m : Nat) : Lang Nat := fun w n => num s lead 0 m w (n : Int)
def posL (s : Bool) : Lang Nat := numN s true U32MAX
def atomL (s : Bool) : Lang Nat := fun w n => num s true 1 2147483647 w (n : Int)
def litL (s : Bool) : Lang Int := fun w v => num s true (-2147483647) 2147483647 w v ∧ v ≠ 0
def wlitL (s : Bool) (minW : Int) : Lang (Int × Int) := seq (litL s) (fun l => seq (num s true minW I32MAX) (fun w => ret (l, w)))

theorem i64 : I64MAX = 9223372036854775807 := rfl

theorem posMax_sound (lead : Bool) (m : Nat) (hm : (m : Int) < I64MAX) (a : AS) (n : Nat) (a' : AS) (h : posMax m a = .ok (n, a')) :
    ∃ w, a.rest = w ++ a'.rest ∧ numN false lead m w n := by
  unfold posMax at h
  cases hi : AspifIn.intIn 0 m a with
  | error l => rw [hi] at h; cases h
  | ok r =>
    obtain ⟨v, a1⟩ := r
    rw [hi] at h
    obtain ⟨w, e, hl⟩ := intIn_sound lead 0 m (by rw [i64]; omega) hm a v a1 hi
    cases h
    have hv : 0 ≤ v := by obtain ⟨_, _, _, _, _, _, _, h0, _⟩ := hl; exact h0
    refine ⟨w, e, ?_⟩
    show num false lead 0 m w ((v.toNat : Nat) : Int)
    rw [Int.toNat_of_nonneg hv]; exact hl

theorem posMax_complete (lead : Bool) (m : Nat) (hm : (m : Int) < I64MAX) (w : List Nat) (n : Nat) (a : AS) (k : List Nat)
    (hw : numN true lead m w n) (hr : a.rest = w ++ k) (hk : NDS k) : ∃ a', posMax m a = .ok (n, a') ∧ a'.rest = k := by
  obtain ⟨a1, e1, r1⟩ := intIn_complete lead 0 m (by rw [i64]; omega) hm w n a k hw hr hk
  refine ⟨a1, ?_, r1⟩
  unfold posMax
  rw [e1]; rfl

theorem Spec.posMax (m : Nat) (hm : (m : Int) < I64MAX) : Spec (AspifIn.posMax m) (fun s => numN s true m) :=
  ⟨posMax_sound true m hm, posMax_complete true m hm, fun _ _ k hw _ => num_nds hw k⟩

theorem Spec.pos : Spec AspifIn.pos posL := Spec.posMax _ (by decide)

theorem Spec.atom : Spec AspifIn.atom atomL := by
  refine ⟨?_, ?_, fun _ _ k hw _ => num_nds hw k⟩
  · intro a n a' h
    unfold AspifIn.atom at h
    cases hi : AspifIn.intIn Gen.atomMin Gen.atomMax a with
    | error l => rw [hi] at h; cases h
    | ok r =>
      obtain ⟨v, a1⟩ := r
      rw [hi] at h
      obtain ⟨w, e, hl⟩ := intIn_sound true Gen.atomMin Gen.atomMax (by decide) (by decide) a v a1 hi
      cases h
      have hv : 1 ≤ v := by obtain ⟨_, _, _, _, _, _, _, h0, _⟩ := hl; exact h0
      refine ⟨w, e, ?_⟩
      show num false true 1 2147483647 w ((v.toNat : Nat) : Int)
      rw [Int.toNat_of_nonneg (by omega)]; exact hl
  · intro w n a k hw hr hk
    obtain ⟨a1, e1, r1⟩ := intIn_complete true Gen.atomMin Gen.atomMax (by decide) (by decide) w n a k hw hr hk
    refine ⟨a1, ?_, r1⟩
    unfold AspifIn.atom
    rw [e1]; rfl

theorem lit_ok_iff (a : AS) (v : Int) (a' : AS) : AspifIn.lit a = .ok (v, a') ↔ AspifIn.intIn (-2147483647) 2147483647 a = .ok (v, a') ∧ v ≠ 0 := by
  unfold AspifIn.lit AspifIn.intIn
  cases hm : a.matchInt false with
  | mk res a0 =>
    cases res with
    | fail => exact ⟨(by intro e; cases e), (by intro e; cases e.1)⟩
    | val v' =>
      simp only
      by_cases hr : -2147483647 ≤ v' ∧ v' ≤ 2147483647
      · by_cases h0 : v' = 0
        · have hc : ¬ (v' ≠ 0 ∧ -(Gen.atomMax : Int) ≤ v' ∧ v' ≤ Gen.atomMax) := by intro h; exact h.1 h0
          rw [if_neg hc, if_pos hr]
          exact ⟨(by intro e; cases e), (by intro e; obtain ⟨e1, e2⟩ := e; cases e1; exact absurd h0 e2)⟩
        · have hc : (v' ≠ 0 ∧ -(Gen.atomMax : Int) ≤ v' ∧ v' ≤ Gen.atomMax) := by simp only [Gen.atomMax]; omega
          rw [if_pos hc, if_pos hr]
          exact ⟨(by intro e; exact ⟨e, by cases e; exact h0⟩), (by intro e; exact e.1)⟩
      · have hc : ¬ (v' ≠ 0 ∧ -(Gen.atomMax : Int) ≤ v' ∧ v' ≤ Gen.atomMax) := by simp only [Gen.atomMax]; omega
        rw [if_neg hc, if_neg hr]
        exact ⟨(by intro e; cases e), (by intro e; cases e.1)⟩

theorem Spec.lit : Spec AspifIn.lit litL := by
  refine ⟨?_, ?_, fun _ _ k hw _ => num_nds hw.1 k⟩
  · intro a v a' h
    obtain ⟨h1, h0⟩ := (lit_ok_iff a v a').mp h
    obtain ⟨w, e, hl⟩ := intIn_sound true _ _ (by decide) (by decide) a v a' h1
    exact ⟨w, e, hl, h0⟩
  · intro w v a k hw hr hk
    obtain ⟨a1, e1, r1⟩ := intIn_complete true _ _ (by decide) (by decide) w v a k hw.1 hr hk
    exact ⟨a1, (lit_ok_iff a v a1).mpr ⟨e1, hw.2⟩, r1⟩

theorem Spec.wlit (minW : Int) (hlo : -(I64MAX : Int) < minW) : Spec (AspifIn.wlit minW) (fun s => wlitL s minW) := by
  unfold AspifIn.wlit
  exact Spec.bind Spec.lit (fun l => Spec.bind (Spec.intIn minW I32MAX hlo (by decide)) (fun w => Spec.pure _))

/-! ### lists -/
def repL {α : Type} (L : Lang α) : Nat → Lang (List α)
  | 0 => ret []
  | n + 1 => seq L (fun x => seq (repL L n) (fun l => ret (x :: l)))

theorem Safe.rep {α : Type} {L : Bool → Lang α} (h : Safe L) : ∀ n, Safe (fun s => repL (L s) n) := by
  intro n
  induction n with
  | zero => exact Safe.ret []
  | succ n ih => exact Safe.seq h (fun x => Safe.seq ih (fun l => Safe.ret _))

theorem Spec.rep {α : Type} {p : P α} {L : Bool → Lang α} (hp : Spec p L) :
    ∀ (n : Nat) (acc : List α), Spec (AspifIn.rep p n acc) (fun s w l => ∃ l', repL (L s) n w l' ∧ l = acc.reverse ++ l') := by
  intro n
  induction n with
  | zero =>
    intro acc
    refine ⟨?_, ?_, ?_⟩
    · intro a l a' h; simp only [AspifIn.rep] at h; cases h; exact ⟨[], rfl, [], ⟨rfl, rfl⟩, by simp⟩
    · intro w l a k hw hr _
      obtain ⟨l', ⟨e1, e2⟩, e3⟩ := hw
      subst e1; subst e2; subst e3
      exact ⟨a, by simp [AspifIn.rep], by simpa using hr⟩
    · intro w l k hw hk; obtain ⟨l', ⟨e1, _⟩, _⟩ := hw; subst e1; simpa using hk
  | succ n ih =>
    intro acc
    refine ⟨?_, ?_, ?_⟩
    · intro a l a' h
      simp only [AspifIn.rep] at h
      cases h1 : p a with
      | error e => rw [h1] at h; cases h
      | ok r =>
        obtain ⟨x, a1⟩ := r
        rw [h1] at h
        obtain ⟨w1, e1, l1⟩ := hp.sound a x a1 h1
        obtain ⟨w2, e2, l', hl', el⟩ := (ih (x :: acc)).sound a1 l a' h
        exact ⟨w1 ++ w2, by rw [e1, e2, List.append_assoc], x :: l', ⟨w1, w2, x, rfl, l1, w2, [], l', by simp, hl', rfl, rfl⟩, by rw [el]; simp⟩
    · intro w l a k hw hr hk
      obtain ⟨l', ⟨w1, w2', x, ew, l1, w2, w3, l2, ew2, hl2, e3, e4⟩, el⟩ := hw
      subst e3; subst e4; subst ew2; subst ew; subst el
      simp only [List.append_nil] at hr ⊢
      have hs2 : NDS (w2 ++ k) := Safe.rep hp.safe n w2 l2 k hl2 hk
      obtain ⟨a1, e1, r1⟩ := hp.complete w1 x a (w2 ++ k) l1 (by rw [hr, List.append_assoc]) hs2
      obtain ⟨a2, e2, r2⟩ := (ih (x :: acc)).complete w2 ((x :: acc).reverse ++ l2) a1 k ⟨l2, hl2, rfl⟩ r1 hk
      refine ⟨a2, ?_, r2⟩
      simp only [AspifIn.rep, e1, Bind.bind, Except.bind]
      simpa using e2
    · intro w l k hw hk
      obtain ⟨l', hl', _⟩ := hw
      exact Safe.rep hp.safe (n + 1) w l' k hl' hk

/-- a counted list: the count, then that many items -/
def countedL {α : Type} (s : Bool) (L : Bool → Lang α) : Lang (List α) := seq (posL s) (fun n => repL (L s) n)

theorem Spec.counted {α : Type} {p : P α} {L : Bool → Lang α} (hp : Spec p L) : Spec (AspifIn.counted p) (fun s => countedL s L) := by
  unfold AspifIn.counted
  refine Spec.of_iff (Spec.bind Spec.pos (fun n => Spec.rep hp n [])) ?_
  intro s w l
  unfold countedL seq
  constructor
  · rintro ⟨w1, w2, n, e, h1, h2⟩; exact ⟨w1, w2, n, e, h1, l, h2, by simp⟩
  · rintro ⟨w1, w2, n, e, h1, l', h2, el⟩; simp at el; subst el; exact ⟨w1, w2, n, e, h1, h2⟩

def atomsL (s : Bool) : Lang (List Nat) := countedL s atomL
def litsL (s : Bool) : Lang (List Int) := countedL s litL
def idsL (s : Bool) : Lang (List Nat) := countedL s posL
/-- weighted literals; those of weight 0 are not delivered -/
def wlitsL (s : Bool) (minW : Int) : Lang (List (Int × Int)) := seq (countedL s (fun s => wlitL s minW)) (fun l => ret (l.filter (fun p => p.2 ≠ 0)))

theorem Spec.atoms : Spec AspifIn.atoms atomsL := Spec.counted Spec.atom
theorem Spec.lits : Spec AspifIn.lits litsL := Spec.counted Spec.lit
theorem Spec.ids : Spec AspifIn.ids idsL := Spec.counted Spec.pos
theorem Spec.wlits (minW : Int) (hlo : -(I64MAX : Int) < minW) : Spec (AspifIn.wlits minW) (fun s => wlitsL s minW) := by
  unfold AspifIn.wlits
  exact Spec.bind (Spec.counted (Spec.wlit minW hlo)) (fun l => Spec.pure _)

/-! ### strings -/
/-- the separator between the length and the bytes: one blank (strict); whatever one `get` extracts (lenient) -/
def SepOk (s : Bool) (sep : List Nat) : Prop := if s then sep = [32] else sep.length ≤ 2

def strL (s : Bool) : Lang (List Nat) := fun w bs =>
  ∃ w1 sep, w = w1 ++ (sep ++ bs) ∧ posL s w1 bs.length ∧ SepOk s sep ∧ ∀ c ∈ bs, c ≠ 0

theorem drop_of_append {l out t : List Nat} (e : out ++ t = l) : l.drop out.length = t := by subst e; simp
theorem takeWhile_mem (p : Nat → Bool) : ∀ (l : List Nat), ∀ c ∈ l.takeWhile p, p c = true := by
  intro l
  induction l with
  | nil => intro c hc; cases hc
  | cons x r ih =>
    intro c hc
    simp only [List.takeWhile] at hc
    split at hc
    · rename_i hx; simp only [List.mem_cons] at hc; rcases hc with h | h; exact h ▸ hx; exact ih c h
    · cases hc

theorem get_inv (a : AS) : ∃ sep, a.rest = sep ++ a.get.2.rest ∧ sep.length ≤ 2 := by
  unfold AS.get
  split
  · rename_i h; exact ⟨[], by simp [h], by simp⟩
  · rename_i c r h
    split
    · exact ⟨[], by simp, by simp⟩
    · split
      · rename_i h13
        have : c = 13 := by simpa using h13
        subst this
        split
        · rename_i r'; exact ⟨[13, 10], by simp [h], by simp⟩
        · exact ⟨[13], by simp [h], by simp⟩
      · split
        · exact ⟨[c], by simp [h], by simp⟩
        · exact ⟨[c], by simp [h], by simp⟩

theorem Spec.string : Spec AspifIn.string strL := by
  refine ⟨?_, ?_, ?_⟩
  · intro a bs a' h
    unfold AspifIn.string at h
    cases h1 : AspifIn.pos a with
    | error e => rw [h1] at h; cases h
    | ok r =>
      obtain ⟨n, a1⟩ := r
      simp only [h1, Bind.bind, Except.bind] at h
      obtain ⟨w1, e1, l1⟩ := Spec.pos.sound a n a1 h1
      obtain ⟨sep, e2, hsep⟩ := get_inv a1
      split at h
      · rename_i hlen
        cases h
        have hpre : (a1.get.2.copy n).1 <+: a1.get.2.rest := by
          unfold AS.copy
          exact List.IsPrefix.trans (List.take_prefix _ _) (List.takeWhile_prefix _)
        obtain ⟨t, et⟩ := hpre
        have hrest : (a1.get.2.copy n).2.rest = t := drop_of_append et
        refine ⟨w1 ++ (sep ++ (a1.get.2.copy n).1), by rw [e1, e2, ← et, hrest]; simp, w1, sep, rfl, by rw [hlen]; exact l1, hsep, ?_⟩
        intro c hc
        have : c ∈ List.takeWhile (fun x => x != 0) a1.get.2.rest := by
          unfold AS.copy at hc; exact List.mem_of_mem_take hc
        have := takeWhile_mem _ _ c this
        simpa using this
      · cases h
  · intro w bs a k hw hr _
    obtain ⟨w1, sep, ew, hpos, hsep, hn⟩ := hw
    simp only [SepOk, ↓reduceIte] at hsep
    subst hsep; subst ew
    obtain ⟨a1, e1, r1⟩ := Spec.pos.complete w1 bs.length a ([32] ++ bs ++ k) hpos (by rw [hr]; simp) (by intro c r e; cases e; rfl)
    have hg := PotasscoVerif.AspifRT.get_plain a1 32 (bs ++ k) (by rw [r1]; simp) (by decide) (by decide) (by decide)
    have htk := PotasscoVerif.AspifRT.takeWhile_nonul bs k hn
    refine ⟨(a1.get.2.copy bs.length).2, ?_, ?_⟩
    · unfold AspifIn.string
      simp only [e1, Bind.bind, Except.bind]
      have : (a1.get.2.copy bs.length).1 = bs := by
        unfold AS.copy; rw [hg]; exact htk
      rw [this]; simp
    · unfold AS.copy
      rw [hg]
      simp only
      rw [htk]; simp
  · intro w bs k hw _
    obtain ⟨w1, sep, ew, hpos, _, _⟩ := hw
    subst ew
    rw [List.append_assoc]
    exact num_nds hpos _

end PotasscoVerif.AspifLang
