/-
  Invariants of the signal machine (helper lemmas for C18).
-/
import PotasscoVerif.Model.Signals
namespace PotasscoVerif.Signals

/-- what a frame has added to `blocked_` and not yet taken back. -/
def contrib : Frame → Nat
  | .ps _ _ pc _ => if pc = .inc then 0 else 1
  | .ub _ _ _ => 0

def contribs (l : List Frame) : Nat := (l.map contrib).sum

/-- an `unblockSignals` call that has not yet decremented. -/
def ubDec : Frame → Nat
  | .ub _ .dec _ => 1
  | _ => 0
def isUb : Frame → Nat
  | .ub _ _ _ => 1
  | _ => 0

/-- the accounting invariant. -/
structure Acc (s : St) : Prop where
  count : s.blocked = s.appDepth + s.stuck + contribs s.stack
  oneUb : (s.stack.map isUb).sum ≤ 1
  ubOk  : 1 ≤ (s.stack.map ubDec).sum → 1 ≤ s.appDepth

theorem ubDec_le : ∀ (l : List Frame), (l.map ubDec).sum ≤ (l.map isUb).sum := by
  intro l
  induction l with
  | nil => simp
  | cons f l ih =>
    have : ubDec f ≤ isUb f := by
      cases f with
      | ps => simp [ubDec, isUb]
      | ub d pc p => cases pc <;> simp [ubDec, isUb]
    simp; omega

theorem acc_init (main : List MainOp) : Acc (St.init main) := by
  refine ⟨?_, ?_, ?_⟩ <;> simp [St.init, contribs]

theorem step_acc (p : Bool) {s s' : St} {c : Choice} (h : Acc s) (hs : step p s c = some s') : Acc s' := by
  have hc := h.count; have ho := h.oneUb; have hu := h.ubOk
  cases c with
  | arrive sig =>
    simp only [step] at hs
    by_cases hm : sig = 0 ∨ masked sig s.stack = true
    · simp [hm] at hs
    · simp only [hm, ↓reduceIte, Option.some.injEq] at hs
      subst hs
      refine ⟨?_, ?_, ?_⟩ <;> simp [contribs, contrib, isUb, ubDec] at * <;> omega
  | step r =>
    simp only [step] at hs
    cases hst : s.stack with
    | nil =>
      rw [hst] at hs hc ho hu
      cases hm : s.main with
      | nil => simp [hm] at hs
      | cons op m =>
        cases op with
        | work => simp [hm] at hs; subst hs; refine ⟨?_, ?_, ?_⟩ <;> simp [contribs, hst] at * <;> omega
        | block => simp [hm] at hs; subst hs; refine ⟨?_, ?_, ?_⟩ <;> simp [contribs, hst] at * <;> omega
        | unblock d =>
          simp only [hm] at hs
          by_cases hd : s.appDepth = 0
          · simp [hd] at hs
          · simp only [hd, ↓reduceIte, Option.some.injEq] at hs
            subst hs
            refine ⟨?_, ?_, ?_⟩ <;> simp [contribs, contrib, isUb, ubDec] at * <;> omega
    | cons f rest =>
      rw [hst] at hs hc ho hu
      cases f with
      | ps sig id pc intr =>
        cases pc with
        | inc =>
          simp only [Option.some.injEq] at hs; subst hs
          refine ⟨?_, ?_, ?_⟩
          · by_cases hb : s.blocked = 0 <;> simp [contribs, contrib, hb] at * <;> omega
          · by_cases hb : s.blocked = 0 <;> simp [isUb, hb] at * <;> omega
          · by_cases hb : s.blocked = 0 <;> simp [ubDec, hb] at * <;> omega
        | callStart => simp only [Option.some.injEq] at hs; subst hs; refine ⟨?_, ?_, ?_⟩ <;> simp [contribs, contrib, isUb, ubDec] at * <;> omega
        | inCall =>
          cases r with
          | true => simp only [↓reduceIte, Option.some.injEq] at hs; subst hs; refine ⟨?_, ?_, ?_⟩ <;> simp [contribs, contrib, isUb, ubDec] at * <;> omega
          | false => simp only [Bool.false_eq_true, ↓reduceIte, Option.some.injEq] at hs; subst hs; refine ⟨?_, ?_, ?_⟩ <;> simp [contribs, contrib, isUb, ubDec] at * <;> omega
        | checkPending =>
          simp only [Option.some.injEq] at hs; subst hs
          refine ⟨?_, ?_, ?_⟩ <;> by_cases hp : s.pending.1 = 0 <;> simp [contribs, contrib, isUb, ubDec, hp] at * <;> omega
        | setPending => simp only [Option.some.injEq] at hs; subst hs; refine ⟨?_, ?_, ?_⟩ <;> simp [contribs, contrib, isUb, ubDec] at * <;> omega
        | dec => simp only [Option.some.injEq] at hs; subst hs; refine ⟨?_, ?_, ?_⟩ <;> simp [contribs, contrib, isUb, ubDec] at * <;> omega
      | ub d pc pend =>
        cases pc with
        | dec =>
          simp only [Option.some.injEq] at hs; subst hs
          have hle := ubDec_le rest
          refine ⟨?_, ?_, ?_⟩ <;> by_cases hb : s.blocked = 1 <;> simp [contribs, contrib, isUb, ubDec, hb] at * <;> omega
        | xchg =>
          cases p with
          | true => simp only [↓reduceIte, Option.some.injEq] at hs; subst hs; refine ⟨?_, ?_, ?_⟩ <;> simp [contribs, contrib, isUb, ubDec] at * <;> omega
          | false =>
            simp only [Bool.false_eq_true, ↓reduceIte, Option.some.injEq] at hs; subst hs
            refine ⟨?_, ?_, ?_⟩ <;> by_cases hq : s.pending.1 ≠ 0 ∧ d = true <;> simp [contribs, contrib, isUb, ubDec, hq] at * <;> omega
        | clear =>
          simp only [Option.some.injEq] at hs; subst hs
          refine ⟨?_, ?_, ?_⟩ <;> by_cases hq : pend.1 ≠ 0 ∧ d = true <;> simp [contribs, contrib, isUb, ubDec, hq] at * <;> omega
        | deliver => simp only [Option.some.injEq] at hs; subst hs; refine ⟨?_, ?_, ?_⟩ <;> simp [contribs, contrib, isUb, ubDec] at * <;> omega

theorem run_acc (p : Bool) : ∀ (cs : List Choice) (s : St), Acc s → Acc (run p s cs) := by
  intro cs
  induction cs with
  | nil => intro s h; exact h
  | cons c cs ih =>
    intro s h
    simp only [run]
    cases hst : step p s c with
    | none => exact ih s h
    | some s' => exact ih s' (step_acc p h hst)

/-! ### each arrival reaches the callback at most once (repaired code) -/

/-- arrival ids a frame still carries towards a callback or the pending slot. -/
def active : Frame → List Nat
  | .ps _ id pc _ => if pc = .inc ∨ pc = .callStart ∨ pc = .checkPending ∨ pc = .setPending then [id] else []
  | .ub _ pc pend => if pc = .deliver then [pend.2] else []

def carriers (s : St) : List Nat :=
  s.stack.flatMap active ++ (if s.pending.1 ≠ 0 then [s.pending.2] else [])

def calledIds : List Ev → List Nat
  | [] => []
  | .callStart _ id :: r => id :: calledIds r
  | _ :: r => calledIds r

theorem calledIds_append (l1 l2 : List Ev) : calledIds (l1 ++ l2) = calledIds l1 ++ calledIds l2 := by
  induction l1 with
  | nil => rfl
  | cons e l ih => cases e <;> simp [calledIds, ih]

structure Lin (s : St) : Prop where
  nodup   : (carriers s).Nodup
  fresh   : ∀ id ∈ carriers s, id < s.nextId
  called  : ∀ id ∈ calledIds s.log, id ∉ carriers s ∧ id < s.nextId
  once    : (calledIds s.log).Nodup
  noClear : ∀ d pend, Frame.ub d .clear pend ∉ s.stack

theorem lin_init (main : List MainOp) : Lin (St.init main) := by
  refine ⟨?_, ?_, ?_, ?_, ?_⟩ <;> simp [St.init, carriers, calledIds]

/-- the two-step read/clear of the original code (`pc = clear`) does not occur in the repaired code. -/
theorem step_noClear {s s' : St} {c : Choice} (h : ∀ d pend, Frame.ub d .clear pend ∉ s.stack)
    (hs : step false s c = some s') : ∀ d pend, Frame.ub d .clear pend ∉ s'.stack := by
  intro d0 p0
  cases c with
  | arrive sig =>
    simp only [step] at hs
    by_cases hm : sig = 0 ∨ masked sig s.stack = true
    · simp [hm] at hs
    · simp only [hm, ↓reduceIte, Option.some.injEq] at hs; subst hs; simpa using h d0 p0
  | step r =>
    simp only [step] at hs
    cases hst : s.stack with
    | nil =>
      rw [hst] at hs
      cases hm : s.main with
      | nil => simp [hm] at hs
      | cons op m =>
        cases op with
        | work => simp [hm] at hs; subst hs; simp [hst]
        | block => simp [hm] at hs; subst hs; simp [hst]
        | unblock d =>
          simp only [hm] at hs
          by_cases hd : s.appDepth = 0
          · simp [hd] at hs
          · simp only [hd, ↓reduceIte, Option.some.injEq] at hs; subst hs; simp
    | cons f rest =>
      rw [hst] at hs
      have hr : Frame.ub d0 .clear p0 ∉ rest := fun hm => h d0 p0 (by rw [hst]; simp [hm])
      cases f with
      | ps sig id pc intr =>
        cases pc <;> (try cases r) <;> simp at hs <;> subst hs <;> simp [hr] <;> (try split) <;> simp
      | ub d pc pend =>
        cases pc with
        | dec => simp only [Option.some.injEq] at hs; subst hs; by_cases hb : s.blocked = 1 <;> simp [hb, hr]
        | xchg =>
          simp only [Bool.false_eq_true, ↓reduceIte, Option.some.injEq] at hs; subst hs
          by_cases hq : s.pending.1 ≠ 0 ∧ d = true <;> simp [hq, hr]
        | clear => exact absurd (by rw [hst]; simp) (h d pend)
        | deliver => simp only [Option.some.injEq] at hs; subst hs; simp [hr]

/-- a step that only moves or drops carriers and logs no callback keeps the invariant. -/
theorem lin_shrink {s s' : St} (h : Lin s) (hn : s'.nextId = s.nextId) (hl : calledIds s'.log = calledIds s.log)
    (hc : ∃ l, (carriers s').Perm l ∧ l.Sublist (carriers s))
    (hnc : ∀ d pend, Frame.ub d .clear pend ∉ s'.stack) : Lin s' := by
  obtain ⟨l, hp, hsub⟩ := hc
  have hmem : ∀ id, id ∈ carriers s' → id ∈ carriers s := fun id hi => hsub.subset (hp.mem_iff.mp hi)
  refine ⟨hp.nodup_iff.mpr (h.nodup.sublist hsub), ?_, ?_, ?_, hnc⟩
  · intro id hi; rw [hn]; exact h.fresh id (hmem id hi)
  · intro id hi; rw [hl] at hi; rw [hn]
    exact ⟨fun hc' => (h.called id hi).1 (hmem id hc'), (h.called id hi).2⟩
  · rw [hl]; exact h.once

theorem noClear_cons {f : Frame} {rest : List Frame} (hf : ∀ d p, f ≠ .ub d .clear p)
    (hr : ∀ d pend, Frame.ub d .clear pend ∉ rest) : ∀ d pend, Frame.ub d .clear pend ∉ f :: rest := by
  intro d p hm
  rcases List.mem_cons.mp hm with e | e
  · exact hf d p e.symm
  · exact hr d p e

theorem step_lin {s s' : St} {c : Choice} (h : Lin s) (hs : step false s c = some s') : Lin s' := by
  have hnc' := step_noClear h.noClear hs
  cases c with
  | arrive sig =>
    simp only [step] at hs
    by_cases hm : sig = 0 ∨ masked sig s.stack = true
    · simp [hm] at hs
    · simp only [hm, ↓reduceIte, Option.some.injEq] at hs
      subst hs
      have hfr : s.nextId ∉ carriers s := fun hi => Nat.lt_irrefl _ (h.fresh _ hi)
      have hcar : carriers { s with stack := .ps sig s.nextId .inc true :: s.stack, nextId := s.nextId + 1 } =
          s.nextId :: carriers s := by simp [carriers, active]
      refine ⟨?_, ?_, ?_, h.once, hnc'⟩
      · rw [hcar]; exact List.nodup_cons.mpr ⟨hfr, h.nodup⟩
      · intro id hi; rw [hcar] at hi
        rcases List.mem_cons.mp hi with e | e
        · rw [e]; exact Nat.lt_succ_self _
        · exact Nat.lt_succ_of_lt (h.fresh id e)
      · intro id hi
        have hc := h.called id hi
        refine ⟨?_, Nat.lt_succ_of_lt hc.2⟩
        rw [hcar]; intro hm'
        rcases List.mem_cons.mp hm' with e | e
        · rw [e] at hc; exact Nat.lt_irrefl _ hc.2
        · exact hc.1 e
  | step r =>
    simp only [step] at hs
    cases hst : s.stack with
    | nil =>
      rw [hst] at hs
      have hcs : carriers s = (if s.pending.1 ≠ 0 then [s.pending.2] else []) := by simp [carriers, hst]
      cases hm : s.main with
      | nil => simp [hm] at hs
      | cons op m =>
        cases op with
        | work =>
          simp [hm] at hs; subst hs
          refine lin_shrink h rfl rfl ⟨carriers s, ?_, List.Sublist.refl _⟩ hnc'
          rw [hcs]; simp [carriers]
        | block =>
          simp [hm] at hs; subst hs
          refine lin_shrink h rfl rfl ⟨carriers s, ?_, List.Sublist.refl _⟩ hnc'
          rw [hcs]; simp [carriers]
        | unblock d =>
          simp only [hm] at hs
          by_cases hd : s.appDepth = 0
          · simp [hd] at hs
          · simp only [hd, ↓reduceIte, Option.some.injEq] at hs; subst hs
            refine lin_shrink h rfl rfl ⟨carriers s, ?_, List.Sublist.refl _⟩ hnc'
            rw [hcs]; simp [carriers, active]
    | cons f rest =>
      rw [hst] at hs
      have hrest : ∀ d pend, Frame.ub d .clear pend ∉ rest := fun d p hm => h.noClear d p (by rw [hst]; simp [hm])
      have hcs : carriers s = active f ++ (rest.flatMap active ++ (if s.pending.1 ≠ 0 then [s.pending.2] else [])) := by
        simp [carriers, hst]
      cases f with
      | ps sig id pc intr =>
        cases pc with
        | inc =>
          simp only [Option.some.injEq] at hs; subst hs
          refine lin_shrink h rfl (by simp [calledIds_append, calledIds]) ⟨carriers s, ?_, List.Sublist.refl _⟩
            hnc'
          rw [hcs]; by_cases hb : s.blocked = 0 <;> simp [carriers, active, hb]
        | callStart =>
          simp only [Option.some.injEq] at hs; subst hs
          have hcar' : carriers { s with log := s.log ++ [.callStart sig id], stack := .ps sig id .inCall intr :: rest } =
              rest.flatMap active ++ (if s.pending.1 ≠ 0 then [s.pending.2] else []) := by simp [carriers, active]
          have hcs' : carriers s = id :: (rest.flatMap active ++ (if s.pending.1 ≠ 0 then [s.pending.2] else [])) := by
            rw [hcs]; simp [active]
          have hnd := h.nodup; rw [hcs'] at hnd
          have hid : id ∈ carriers s := by rw [hcs']; simp
          have hnot : id ∉ calledIds s.log := fun hc => (h.called id hc).1 hid
          refine ⟨?_, ?_, ?_, ?_, noClear_cons (by intro d p e; cases e) hrest⟩
          · rw [hcar']; exact (List.nodup_cons.mp hnd).2
          · intro x hx; rw [hcar'] at hx; exact h.fresh x (by rw [hcs']; exact List.mem_cons_of_mem _ hx)
          · intro x hx
            simp only [calledIds_append, calledIds, List.mem_append, List.mem_singleton] at hx
            rw [hcar']
            rcases hx with hx | hx
            · exact ⟨fun hc => (h.called x hx).1 (by rw [hcs']; exact List.mem_cons_of_mem _ hc), (h.called x hx).2⟩
            · rw [hx]; exact ⟨(List.nodup_cons.mp hnd).1, h.fresh id hid⟩
          · simp only [calledIds_append, calledIds]
            exact List.nodup_append.mpr ⟨h.once, by simp, by intro a ha b hb; simp at hb; rw [hb]; intro e; rw [e] at ha; exact hnot ha⟩
        | inCall =>
          cases r with
          | true =>
            simp only [↓reduceIte, Option.some.injEq] at hs; subst hs
            refine lin_shrink h rfl (by simp [calledIds_append, calledIds]) ⟨carriers s, ?_, List.Sublist.refl _⟩
              hnc'
            rw [hcs]; simp [carriers, active]
          | false =>
            simp only [Bool.false_eq_true, ↓reduceIte, Option.some.injEq] at hs; subst hs
            refine lin_shrink h rfl (by simp [calledIds_append, calledIds]) ⟨carriers s, ?_, List.Sublist.refl _⟩ hnc'
            rw [hcs]; simp [carriers, active]
        | checkPending =>
          simp only [Option.some.injEq] at hs; subst hs
          by_cases hp : s.pending.1 = 0
          · refine lin_shrink h rfl rfl ⟨carriers s, ?_, List.Sublist.refl _⟩ hnc'
            rw [hcs]; simp [carriers, active, hp]
          · refine lin_shrink h rfl rfl ⟨_, List.Perm.refl _, ?_⟩ hnc'
            rw [hcs]; simp [carriers, active, hp]
        | setPending =>
          simp only [Option.some.injEq] at hs; subst hs
          refine lin_shrink h rfl (by simp [calledIds_append, calledIds]) ?_ hnc'
          rw [hcs]
          by_cases hz : sig = 0
          · refine ⟨rest.flatMap active, ?_, ?_⟩
            · simp [carriers, active, hz]
            · simp [active]
          · refine ⟨id :: rest.flatMap active, ?_, ?_⟩
            · simp [carriers, active, hz]
            · simp [active]
        | dec =>
          simp only [Option.some.injEq] at hs; subst hs
          refine lin_shrink h rfl rfl ⟨carriers s, ?_, List.Sublist.refl _⟩ hnc'
          rw [hcs]; simp [carriers, active]
      | ub d pc pend =>
        cases pc with
        | dec =>
          simp only [Option.some.injEq] at hs; subst hs
          refine lin_shrink h rfl rfl ⟨carriers s, ?_, List.Sublist.refl _⟩ hnc'
          rw [hcs]; by_cases hb : s.blocked = 1 <;> simp [carriers, active, hb]
        | xchg =>
          simp only [Bool.false_eq_true, ↓reduceIte, Option.some.injEq] at hs; subst hs
          by_cases hq : s.pending.1 ≠ 0 ∧ d = true
          · refine lin_shrink h rfl (by simp [calledIds_append, calledIds, hq.1]) ?_
              hnc'
            rw [hcs]
            refine ⟨rest.flatMap active ++ [s.pending.2], ?_, ?_⟩
            · simp [carriers, active, hq]; exact List.perm_append_comm (l₁ := [s.pending.2])
            · simp [active, hq.1]
          · refine lin_shrink h rfl ?_ ?_ hnc'
            · by_cases hp : s.pending.1 ≠ 0 <;> simp [calledIds_append, calledIds, hp]
            · rw [hcs]
              refine ⟨rest.flatMap active, ?_, ?_⟩
              · simp [carriers, active, hq]
              · simp [active]
        | clear => exact absurd (by rw [hst]; simp) (h.noClear d pend)
        | deliver =>
          simp only [Option.some.injEq] at hs; subst hs
          refine lin_shrink h rfl rfl ⟨carriers s, ?_, List.Sublist.refl _⟩ hnc'
          rw [hcs]; simp [carriers, active]

theorem run_lin : ∀ (cs : List Choice) (s : St), Lin s → Lin (run false s cs) := by
  intro cs
  induction cs with
  | nil => intro s h; exact h
  | cons c cs ih =>
    intro s h
    simp only [run]
    cases hst : step false s c with
    | none => exact ih s h
    | some s' => exact ih s' (step_lin h hst)

end PotasscoVerif.Signals
