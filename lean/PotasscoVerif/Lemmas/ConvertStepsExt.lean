/-
  Several steps with external directives, extension on: what the external calls emitted over all steps say (read like the given ones: `extRules`)
  is the renaming of what the external directives of all steps say — an external on an atom that no rule of ANY step defines is a fact / a choice /
  nothing, and the LAST directive over all steps counts.
-/
import PotasscoVerif.Lemmas.ConvertSteps
namespace PotasscoVerif.C02
open PotasscoVerif PotasscoVerif.Convert PotasscoVerif.Asp

/-! ### the tracker does not look at its pending list -/
theorem step_regs_indep (t : T) (d : Call) (rs : List Nat) :
    ({ t with regs := rs } : T).step d = { (t.step d) with regs := rs ++ ((({ t with regs := [] } : T).step d).regs) } := by
  cases d <;> simp [T.step]
  rename_i a v
  split <;> simp

theorem run_regs_split (ds : List Call) (t : T) :
    (t.run ds).heads = (({ t with regs := [] } : T).run ds).heads ∧ (t.run ds).vals = (({ t with regs := [] } : T).run ds).vals ∧
    (t.run ds).regs = t.regs ++ (({ t with regs := [] } : T).run ds).regs := by
  induction ds generalizing t with
  | nil => simp [T.run]
  | cons d r ih =>
    have e1 : t.run (d :: r) = (t.step d).run r := rfl
    have e2 : ({ t with regs := [] } : T).run (d :: r) = (({ t with regs := [] } : T).step d).run r := rfl
    rw [e1, e2]
    obtain ⟨a1, a2, a3⟩ := ih (t.step d)
    obtain ⟨b1, b2, b3⟩ := ih (({ t with regs := [] } : T).step d)
    have hs : ({ (t.step d) with regs := [] } : T) = ({ ((({ t with regs := [] } : T).step d)) with regs := [] } : T) := by
      cases d <;> simp [T.step]
      rename_i a v
      split <;> simp
    have hr : (t.step d).regs = t.regs ++ (({ t with regs := [] } : T).step d).regs := by
      cases d <;> simp [T.step]
      rename_i a v
      split <;> simp
    refine ⟨by rw [a1, b1, hs], by rw [a2, b2, hs], ?_⟩
    rw [a3, b3, hr, hs, List.append_assoc]

/-- the atoms of the pending lists of all steps, in order, are the pending list of one run over all steps without clearing -/
theorem stepRegs_atoms (dss : List (List Call)) (t : T) (ht : t.regs = []) :
    (stepRegs t dss).map (·.1) = (t.run dss.flatten).regs ∧
    ((dss.foldl (fun t ds => (t.run ds).next) t).heads = (t.run dss.flatten).heads) := by
  induction dss generalizing t with
  | nil => simp [stepRegs, T.run, ht]
  | cons ds r ih =>
    have hn : (t.run ds).next.regs = [] := rfl
    obtain ⟨i1, i2⟩ := ih (t.run ds).next hn
    have hrun : t.run (ds ++ r.flatten) = (t.run ds).run r.flatten := by simp [T.run, List.foldl_append]
    obtain ⟨s1, s2, s3⟩ := run_regs_split r.flatten (t.run ds)
    have hnx : ({ (t.run ds) with regs := [] } : T) = (t.run ds).next := rfl
    rw [hnx] at s1 s2 s3
    refine ⟨?_, ?_⟩
    · simp only [stepRegs, List.map_append, List.map_map, List.flatten_cons]
      rw [hrun, s3, i1]
      congr 1
      rw [show ((fun x : Nat × Nat => x.fst) ∘ fun a => (a, (t.run ds).val a)) = id from rfl, List.map_id]
    · simp only [List.foldl_cons, List.flatten_cons]
      rw [i2, hrun, s1]

/-! ### the last value per atom -/
def lastOf (L : List (Nat × Nat)) (a : Nat) : Option Nat := (L.reverse.find? (fun p => p.1 == a)).map (·.2)

theorem lastExt_eq (L : List (Nat × Nat)) (a : Nat) : lastExt L a = (lastOf L a).getD 0 := rfl

theorem lastOf_append (A B : List (Nat × Nat)) (a : Nat) : lastOf (A ++ B) a = (lastOf B a).or (lastOf A a) := by
  unfold lastOf
  rw [List.reverse_append, List.find?_append]
  cases B.reverse.find? (fun p => p.1 == a) <;> simp

/-- a list in which every atom carries one value: the last value of `a` is that value if `a` occurs -/
theorem lastOf_const (l : List Nat) (v : Nat → Nat) (a : Nat) : lastOf (l.map (fun b => (b, v b))) a = if a ∈ l then some (v a) else none := by
  unfold lastOf
  rw [← List.map_reverse]
  have : ∀ (r : List Nat), ((r.map (fun b => (b, v b))).find? (fun p => p.1 == a)).map (·.2) = if a ∈ r then some (v a) else none := by
    intro r
    induction r with
    | nil => simp
    | cons b r ih =>
      simp only [List.map_cons, List.find?_cons]
      by_cases hb : b = a
      · subst hb; simp
      · have : (b == a) = false := by simpa using hb
        simp only [this, ih, List.mem_cons]
        have : ¬ a = b := fun e => hb e.symm
        simp [this]
  rw [this]
  simp

theorem lastOf_mem (L : List (Nat × Nat)) (a : Nat) : (lastOf L a).isSome = true ↔ a ∈ L.map (·.1) := by
  unfold lastOf
  simp only [Option.isSome_map, List.find?_isSome, List.mem_reverse, List.mem_map]
  constructor
  · rintro ⟨p, hp, e⟩; exact ⟨p, hp, by simpa using e⟩
  · rintro ⟨p, hp, e⟩; exact ⟨p, hp, by simpa using e⟩

/-- **the last value over all steps**: for an atom no rule of any step defines, the last entry of the per-step pending lists carries the value of the
    last external directive on it over all steps -/
theorem stepRegs_last (dss : List (List Call)) (t : T) (ht : t.regs = []) (H : List Nat) (hH : ∀ b ∈ (t.run dss.flatten).heads, b ∈ H) (a : Nat) (ha : a ∉ H) :
    lastOf (stepRegs t dss) a = lastOf (extCalls dss.flatten) a := by
  induction dss generalizing t with
  | nil => simp [stepRegs, extCalls, lastOf]
  | cons ds r ih =>
    have hrun : t.run (ds ++ r.flatten) = (t.run ds).run r.flatten := by simp [T.run, List.foldl_append]
    obtain ⟨s1, _, _⟩ := run_regs_split r.flatten (t.run ds)
    have hnx : ({ (t.run ds) with regs := [] } : T) = (t.run ds).next := rfl
    rw [hnx] at s1
    simp only [List.flatten_cons] at hH
    have hH1 : ∀ b ∈ (t.run ds).heads, b ∈ H := by
      intro b hb
      apply hH
      rw [hrun, run_heads]; simp [hb]
    have hH2 : ∀ b ∈ ((t.run ds).next.run r.flatten).heads, b ∈ H := by
      intro b hb
      apply hH
      rw [hrun, s1]; exact hb
    have i := ih (t.run ds).next rfl hH2
    simp only [stepRegs, List.flatten_cons]
    rw [lastOf_append, i, extCalls_append, lastOf_append]
    congr 1
    -- the first step
    rw [lastOf_const]
    have hregs := run_regs ds t H hH1
    rw [ht] at hregs
    simp only [List.filter_nil, List.nil_append] at hregs
    have hmem : a ∈ (t.run ds).regs ↔ a ∈ (extCalls ds).map (·.1) := by
      have h1 : a ∈ (t.run ds).regs.filter (fun x => !H.contains x) ↔ a ∈ ((extCalls ds).map (·.1)).filter (fun x => !H.contains x) := by rw [hregs]
      have hc : (!H.contains a) = true := by simpa using ha
      simp only [List.mem_filter, hc, and_true] at h1
      exact h1
    have hval := run_val ds t H hH1 a ha
    by_cases hin : a ∈ (t.run ds).regs
    · have hin2 := hmem.mp hin
      obtain ⟨v, hv⟩ := Option.isSome_iff_exists.mp ((lastOf_mem (extCalls ds) a).mpr hin2)
      unfold lastOf at hv
      rw [if_pos hin, hval]
      unfold lastOf
      rw [hv]
      cases hf : (extCalls ds).reverse.find? (fun p => p.1 == a) with
      | none => rw [hf] at hv; cases hv
      | some p => rw [hf] at hv; simp at hv; simp [hv]
    · have hin2 : ¬ a ∈ (extCalls ds).map (·.1) := fun h => hin (hmem.mpr h)
      rw [if_neg hin]
      have : (lastOf (extCalls ds) a).isSome = false := by
        cases h : (lastOf (extCalls ds) a).isSome
        · rfl
        · exact absurd ((lastOf_mem _ a).mp h) hin2
      cases h2 : lastOf (extCalls ds) a with
      | none => rfl
      | some x => rw [h2] at this; cases this

/-- every atom that was pending in some step is mapped at the end -/
theorem steps_regs_dom (dss : List (List Call)) (hx : ∀ ds ∈ dss, ∀ d ∈ ds, PlainOk d) {c : CS} {P defs} {t : T} (hj : J c P defs) (hxi : XI c t) (ht : t.regs = [])
    (he : c.ext = true) : ∀ p ∈ stepRegs t dss, p.1 ∈ domOf (dss.foldl stepRun c) := by
  induction dss generalizing c P defs t with
  | nil => intro p hp; cases hp
  | cons ds r ih =>
    have hx1 : ∀ d ∈ ds, PlainOk d := hx ds (by simp)
    have hxr : ∀ ds' ∈ r, ∀ d ∈ ds', PlainOk d := fun ds' h' => hx ds' (by simp [h'])
    obtain ⟨defs1, h1, x1⟩ := step_JX hj hxi ht ds hx1 (Or.inr he)
    have h1' : J (stepRun c ds) (P ++ (rulesOf ds).filter kept) defs1 := h1
    have x1' : XI (stepRun c ds) (t.run ds).next := x1
    have hext : (stepRun c ds).ext = true := (stepRun_ext hj hxi ds hx1).trans he
    have hsteps : ∀ (l : List (List Call)) (c0 : CS), Steps (abs c0) (abs (l.foldl stepRun c0)) := by
      intro l
      induction l with
      | nil => intro c0; exact .refl _
      | cons d l ih2 =>
        intro c0
        simp only [List.foldl_cons]
        refine Steps.trans ?_ (ih2 _)
        unfold stepRun
        exact (apply_steps _ _).trans ((convert_steps _ _).trans (apply_steps _ _))
    intro p hp
    simp only [stepRegs, List.mem_append, List.mem_map] at hp
    simp only [List.foldl_cons]
    rcases hp with ⟨a, ha, rfl⟩ | hp
    · -- pending in the first step: mapped before its end
      have hb : J (c.apply .beginStep) P defs := by rw [apply_begin _ hj.nofail]; exact hj.emit _ rfl
      have xb : XI (c.apply .beginStep) t := by rw [apply_begin _ hj.nofail]; exact hxi.emit _
      obtain ⟨defs', g1, y1⟩ := run_JX hb xb ds hx1
      have hd0 : a ∈ domOf (ds.foldl CS.apply (c.apply .beginStep)) := y1.m a (y1.r ▸ ha)
      have hs0 : Steps (abs (ds.foldl CS.apply (c.apply .beginStep))) (abs (stepRun c ds)) := by unfold stepRun; exact apply_steps _ _
      exact dom_mono (hsteps r _) h1'.inv a (dom_mono hs0 g1.inv a hd0)
    · exact ih hxr h1' x1' rfl hext p hp

/-! ### what the external calls of all steps say -/
/-- `extRules` as a function of the external directives and the defined atoms -/
def extRulesOf (E : List (Nat × Nat)) (Hs : List Nat) : List Rule :=
  let eff := (E.map (·.1)).filter (fun a => !Hs.contains a)
  let facts := eff.filter (fun a => lastExt E a == 1)
  let free := eff.filter (fun a => lastExt E a == 0)
  facts.map (fun a => ⟨false, [a], .normal []⟩) ++ (if free.isEmpty then [] else [⟨true, free, .normal []⟩])

theorem extRules_eq (cs : List Call) : extRules cs = extRulesOf (extCalls cs) (headsOf cs) := rfl

theorem lastOf_map (L : List (Nat × Nat)) (m : Nat → Nat) (hinj : ∀ p ∈ L, ∀ q ∈ L, m p.1 = m q.1 → p.1 = q.1) (a : Nat) (ha : a ∈ L.map (·.1)) :
    lastOf (L.map (fun p => (m p.1, p.2))) (m a) = lastOf L a := by
  unfold lastOf
  rw [← List.map_reverse]
  obtain ⟨pa, hpa, rfl⟩ := List.mem_map.mp ha
  have : ∀ (r : List (Nat × Nat)), (∀ q ∈ r, q ∈ L) →
      ((r.map (fun p => (m p.1, p.2))).find? (fun p => p.1 == m pa.1)).map (·.2) = (r.find? (fun p => p.1 == pa.1)).map (·.2) := by
    intro r
    induction r with
    | nil => intro _; rfl
    | cons q r ih =>
      intro hsub
      simp only [List.map_cons, List.find?_cons]
      by_cases hq : q.1 = pa.1
      · simp [hq]
      · have h1 : (q.1 == pa.1) = false := by simpa using hq
        have h2 : (m q.1 == m pa.1) = false := by
          simp only [beq_eq_false_iff_ne, ne_eq]
          intro e; exact hq (hinj q (hsub q (by simp)) pa hpa e)
        simp only [h1, h2]
        exact ih (fun x hx => hsub x (List.mem_cons_of_mem _ hx))
  exact this L.reverse (fun q hq => List.mem_reverse.mp hq)

/-- the emitted external calls of all steps denote the renamed rules of the external directives of all steps -/
theorem extRules_out_steps (ctx : Ctx) (ok : ctx.Ok) (P : List Rule) (out : List Call) (tr : Trans ctx P (rulesOf out))
    (L srcE : List (Nat × Nat)) (Hs : List Nat)
    (hdom : ∀ p ∈ L, p.1 ∈ ctx.dom)
    (hE : extCalls out = L.map (fun p => (ctx.m p.1, p.2)))
    (hhd : ∀ p ∈ L, Hs.contains p.1 = true ↔ ∃ r ∈ P, p.1 ∈ r.head)
    (hatoms : (L.map (·.1)).filter (fun a => !Hs.contains a) = (srcE.map (·.1)).filter (fun a => !Hs.contains a))
    (hlast : ∀ a, a ∈ L.map (·.1) → Hs.contains a = false → lastOf L a = lastOf srcE a) :
    extRules out = (extRulesOf srcE Hs).map (renRule ctx.m) := by
  have hheads : ∀ p ∈ L, (headsOf out).contains (ctx.m p.1) = Hs.contains p.1 := by
    intro p hp
    have had := hdom p hp
    rw [Bool.eq_iff_iff, hhd p hp]
    simp only [List.contains_iff_mem, headsOf, List.mem_flatMap]
    constructor
    · rintro ⟨r', hr', hin⟩
      have inP : ∀ r ∈ P, ctx.m p.1 ∈ renHead ctx.m r.head → p.1 ∈ r.head := by
        intro r hr hmem
        unfold renHead at hmem
        split at hmem
        · simp at hmem; have := ok.img2 p.1 had; omega
        · obtain ⟨b, hb, e⟩ := List.mem_map.mp hmem
          have := ok.inj b ((tr.inOk r hr).1 b hb) p.1 had e
          rw [← this]; exact hb
      rcases tr.s1 r' hr' with ⟨r, hr, rfl⟩ | ⟨d, hd, rfl⟩ | ⟨r, hr, n, _, rfl⟩
      · exact ⟨r, hr, inP r hr hin⟩
      · simp only [defRule, List.mem_singleton] at hin
        exact absurd hin.symm (ok.imgNoAux p.1 had d hd)
      · exact ⟨r, hr, inP r hr hin⟩
    · rintro ⟨r, hr, hin⟩
      have hne : r.head.isEmpty = false := by cases hh : r.head <;> simp_all
      have hmem : ctx.m p.1 ∈ renHead ctx.m r.head := by
        unfold renHead; rw [hne]; exact List.mem_map_of_mem hin
      rcases tr.s2 r hr with ⟨_, h0⟩ | h | ⟨n, _, h⟩
      · rw [h0] at hin; cases hin
      · exact ⟨_, h, hmem⟩
      · exact ⟨_, h, hmem⟩
  have hinj : ∀ p ∈ L, ∀ q ∈ L, ctx.m p.1 = ctx.m q.1 → p.1 = q.1 := fun p hp q hq e => ok.inj p.1 (hdom p hp) q.1 (hdom q hq) e
  have hlastE : ∀ a ∈ L.map (·.1), lastExt (extCalls out) (ctx.m a) = lastExt L a := by
    intro a ha
    rw [lastExt_eq, lastExt_eq, hE, lastOf_map L ctx.m hinj a ha]
  have e1 : (extCalls out).map (·.1) = (L.map (·.1)).map ctx.m := by rw [hE]; simp [List.map_map, Function.comp]
  have key : ∀ v : Nat, (((extCalls out).map (·.1)).filter (fun n => !(headsOf out).contains n)).filter (fun n => lastExt (extCalls out) n == v)
      = (((srcE.map (·.1)).filter (fun a => !Hs.contains a)).filter (fun a => lastExt srcE a == v)).map ctx.m := by
    intro v
    rw [e1, filter_map_comm, filter_map_comm, List.filter_filter]
    congr 1
    have step1 : (L.map (·.1)).filter (fun a => ((fun n => lastExt (extCalls out) n == v) ∘ ctx.m) a && ((fun n => !(headsOf out).contains n) ∘ ctx.m) a)
        = ((L.map (·.1)).filter (fun a => !Hs.contains a)).filter (fun a => lastExt L a == v) := by
      rw [List.filter_filter]
      apply List.filter_congr
      intro a ha
      obtain ⟨p, hp, rfl⟩ := List.mem_map.mp ha
      simp only [Function.comp, hheads p hp, hlastE p.1 ha]
    rw [step1, hatoms]
    apply List.filter_congr
    intro a ha
    have ha' : a ∈ (L.map (·.1)).filter (fun a => !Hs.contains a) := by rw [hatoms]; exact ha
    obtain ⟨h1, h2⟩ := List.mem_filter.mp ha'
    have h2' : Hs.contains a = false := by simpa using h2
    rw [lastExt_eq, lastExt_eq, hlast a h1 h2']
  unfold extRules extRulesOf
  simp only [key 1, key 0, List.map_append, List.map_map]
  generalize (((srcE.map (·.1)).filter (fun a => !Hs.contains a)).filter (fun a => lastExt srcE a == 0)) = F
  congr 1
  · cases F with
    | nil => simp
    | cons x xs => simp [renRule, renHead, renBody]

end PotasscoVerif.C02
