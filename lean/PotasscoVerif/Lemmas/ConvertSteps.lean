/-
  Several incremental steps of the converter: the translation invariant `J` (Lemmas/ConvertSem.lean) and the flag tracker `XI`
  (Lemmas/ConvertFlags.lean) carried from step to step.  After any number of steps the emitted rules of ALL steps are a translation of the
  given rules of all steps under ONE atom map and ONE table of auxiliary atoms.
-/
import PotasscoVerif.Lemmas.ConvertExt
namespace PotasscoVerif.C02
open PotasscoVerif PotasscoVerif.Convert PotasscoVerif.Asp

/-- the translation invariant through one plain call (the other invariants of `apply_plain` are not needed across steps) -/
theorem apply_plainJ {c : CS} {P defs} (hj : J c P defs) (x : Call) (hx : PlainOk x) :
    ∃ defs', J (c.apply x) (P ++ (rulesOf [x]).filter kept) defs' := by
  have hst := apply_steps c x
  cases x with
  | rule ht head body => exact ⟨defs, apply_rule hj ht head body hx⟩
  | sumRule ht head bound body => obtain ⟨d', h, _⟩ := apply_sumRule hj ht head bound body hx; exact ⟨d', h⟩
  | minimize prio lits =>
    have hany : lits.any (fun p => p.2 == I32MINc) = false := by
      rw [List.any_eq_false]; intro p hp; simpa using (hx p hp).2
    have e1 : (rulesOf [Call.minimize prio lits]).filter kept = [] := rfl
    rw [e1, List.append_nil]
    unfold CS.apply
    simp only [hj.nofail, Bool.false_eq_true, ↓reduceIte, hany]
    exact ⟨defs, hj.of (.refl _) (by simp [hj.nofail]) rfl rfl rfl⟩
  | output str cond =>
    obtain ⟨defs', hJ, _, _⟩ := hj.makeAtom cond true hx
    have e1 : (rulesOf [Call.output str cond]).filter kept = [] := rfl
    rw [e1, List.append_nil, apply_output_eq c hj.nofail]
    exact ⟨defs', hJ.of' (by simp; exact .refl _) rfl rfl rfl⟩
  | acycEdge a b cond =>
    obtain ⟨defs', hJ, _, _⟩ := (hj.through (.acycEdge a b cond) rfl).makeAtom cond true hx
    have e1 : (rulesOf [Call.acycEdge a b cond]).filter kept = [] := rfl
    rw [e1, List.append_nil, apply_edge_eq c hj.nofail]
    exact ⟨defs', hJ.of' (by simp; exact .refl _) rfl rfl rfl⟩
  | heuristic a t b p cond =>
    have e1 : (rulesOf [Call.heuristic a t b p cond]).filter kept = [] := rfl
    rw [e1, List.append_nil, apply_heu_eq c hj.nofail]
    obtain ⟨defs', hJ, _, _⟩ := (hj.through (.heuristic a t b p cond) rfl).makeAtom cond true hx
    exact ⟨defs', hJ.of' (.refl _) rfl rfl rfl⟩
  | external a v =>
    have e1 : (rulesOf [Call.external a v]).filter kept = [] := rfl
    rw [e1, List.append_nil]
    have hfr : (c.apply (.external a v)).fail = false ∧ (c.apply (.external a v)).aux = c.aux ∧ (c.apply (.external a v)).out = c.out := by
      have h := rest_mapAtom c a
      unfold CS.apply
      simp only [hj.nofail, Bool.false_eq_true, ↓reduceIte]
      split
      · refine ⟨?_, ?_, ?_⟩
        · show (c.mapAtom a).1.fail = false; exact (rest_fail h).trans hj.nofail
        · show (c.mapAtom a).1.aux = c.aux; exact rest_aux h
        · show (c.mapAtom a).1.out = c.out; exact rest_out h
      · exact ⟨(rest_fail h).trans hj.nofail, rest_aux h, rest_out h⟩
    exact ⟨defs, hj.of' hst (hfr.1.trans hj.nofail.symm) hfr.2.1 (by rw [hfr.2.2])⟩
  | _ => exact absurd hx (by simp [PlainOk])

theorem run_JX {c : CS} {P defs} {t : T} (hj : J c P defs) (hxi : XI c t) (ds : List Call) (hx : ∀ d ∈ ds, PlainOk d) :
    ∃ defs', J (ds.foldl CS.apply c) (P ++ (rulesOf ds).filter kept) defs' ∧ XI (ds.foldl CS.apply c) (t.run ds) := by
  induction ds generalizing c P defs t with
  | nil => exact ⟨defs, by simpa [rulesOf] using hj, hxi⟩
  | cons d r ih =>
    obtain ⟨defs1, h1⟩ := apply_plainJ hj d (hx d (by simp))
    have x1 := hxi.step hj.inv hj.nofail d (hx d (by simp))
    obtain ⟨defs2, h2, x2⟩ := ih h1 x1 (fun e he => hx e (by simp [he]))
    refine ⟨defs2, ?_, x2⟩
    have : rulesOf (d :: r) = rulesOf [d] ++ rulesOf r := by rw [← rulesOf_append]; rfl
    rw [this, List.filter_append, ← List.append_assoc]
    exact h2

/-- the flags of the atoms are not touched by the end of a step (the pending externals are) -/
theorem flush_flags (c : CS) (hm : ∀ a ∈ c.externs, a ∈ domOf c) (hi : Inv (abs c)) :
    (∀ b, hd c.flush b = hd c b ∧ ex c.flush b = ex c b) ∧ c.flush.externs = [] := by
  obtain ⟨f1, f2, f3⟩ := flushMinimize_flags c
  have hm1 : ∀ a ∈ c.flushMinimize.externs, (c.flushMinimize.find a).isSome = true := by
    intro a ha
    exact dom_find _ a (dom_mono (flushMinimize_steps c) hi a (hm a (f2 ▸ ha)))
  have h2 : ∀ b, hd c.flushMinimize.flushExternal b = hd c.flushMinimize b ∧ ex c.flushMinimize.flushExternal b = ex c.flushMinimize b := by
    intro b
    cases he : c.flushMinimize.ext with
    | true => rw [flushExternal_specT _ he hm1]; exact ⟨rfl, rfl⟩
    | false => rw [flushExternal_spec _ he hm1]; exact ⟨rfl, rfl⟩
  have h3 : ∀ (l : List Convert.Heu) (c0 : CS) (b : Nat), hd (l.foldl heuStep c0) b = hd c0 b ∧ ex (l.foldl heuStep c0) b = ex c0 b := by
    intro l
    induction l with
    | nil => intro c0 b; exact ⟨rfl, rfl⟩
    | cons h r ih =>
      intro c0 b
      obtain ⟨_, _, _, _, _, _, _, _, _, hfl⟩ := heuStep_frame c0 h
      exact ⟨(ih _ b).1.trans (hfl b).1, (ih _ b).2.trans (hfl b).2⟩
  have h4 : ∀ (l : List (Nat × List Nat)) (c0 : CS) (b : Nat),
      hd (l.foldl (fun c p => c.emit (.output p.2 [(p.1 : Int)])) c0) b = hd c0 b ∧ ex (l.foldl (fun c p => c.emit (.output p.2 [(p.1 : Int)])) c0) b = ex c0 b := by
    intro l
    induction l with
    | nil => intro c0 b; exact ⟨rfl, rfl⟩
    | cons h r ih => intro c0 b; exact ⟨(ih _ b).1, (ih _ b).2⟩
  refine ⟨fun b => ?_, rfl⟩
  have e : ∀ b, hd c.flush b = hd c.flushMinimize.flushExternal.flushHeuristic.flushSymbols b ∧
      ex c.flush b = ex c.flushMinimize.flushExternal.flushHeuristic.flushSymbols b := fun _ => ⟨rfl, rfl⟩
  rw [(e b).1, (e b).2]
  unfold CS.flushSymbols
  rw [(h4 _ _ b).1, (h4 _ _ b).2, flushHeuristic_eq, (h3 _ _ b).1, (h3 _ _ b).2, (h2 b).1, (h2 b).2]
  exact f1 b

/-- the tracker after the end of a step: defined atoms and last values stay, nothing is pending -/
def T.next (t : T) : T := { t with regs := [] }

theorem XI.flush {c : CS} {t : T} (h : XI c t) (hi : Inv (abs c)) : XI c.flush t.next := by
  obtain ⟨hf, he⟩ := flush_flags c h.m hi
  refine ⟨fun b => (hf b).1.trans (h.h b), he, fun b => (hf b).2.trans (h.v b), ?_⟩
  intro a ha; rw [he] at ha; cases ha

/-- one whole step from any state in which nothing is pending, for a step without external directives (any setting of the extension) or with the
    extension on (any externals: they are passed on, no rule is emitted for them) -/
theorem step_JX {c : CS} {P defs} {t : T} (hj : J c P defs) (hxi : XI c t) (ht : t.regs = []) (ds : List Call) (hx : ∀ d ∈ ds, PlainOk d)
    (hE : extCalls ds = [] ∨ c.ext = true) :
    ∃ defs', J ((ds.foldl CS.apply (c.apply .beginStep)).apply .endStep) (P ++ (rulesOf ds).filter kept) defs' ∧
      XI ((ds.foldl CS.apply (c.apply .beginStep)).apply .endStep) (t.run ds).next := by
  have hb : J (c.apply .beginStep) P defs := by rw [apply_begin _ hj.nofail]; exact hj.emit _ rfl
  have xb : XI (c.apply .beginStep) t := by rw [apply_begin _ hj.nofail]; exact hxi.emit _
  obtain ⟨defs', h1, x1⟩ := run_JX hb xb ds hx
  have hfl : J (ds.foldl CS.apply (c.apply .beginStep)).flush (P ++ (rulesOf ds).filter kept) defs' := by
    rcases hE with h | h
    · have hreg : (ds.foldl CS.apply (c.apply .beginStep)).externs = [] := by rw [x1.r, run_regs_nil ds t h, ht]
      have := h1.flush x1.m (Or.inr hreg)
      rwa [extP_nil _ hreg, List.append_nil] at this
    · have hext : (ds.foldl CS.apply (c.apply .beginStep)).ext = true := by
        have e0 : (c.apply .beginStep).ext = c.ext := by rw [apply_begin _ hj.nofail]; rfl
        have : ∀ (l : List Call) (c0 : CS) {P0 d0}, J c0 P0 d0 → (∀ d ∈ l, PlainOk d) → (l.foldl CS.apply c0).ext = c0.ext := by
          intro l
          induction l with
          | nil => intro _ _ _ _ _; rfl
          | cons d r ih =>
            intro c0 P0 d0 hj0 hx0
            obtain ⟨d1, hj1⟩ := apply_plainJ hj0 d (hx0 d (by simp))
            simp only [List.foldl_cons]
            rw [ih _ hj1 (fun e he => hx0 e (by simp [he])), apply_plain_ext c0 hj0.nofail d (hx0 d (by simp))]
        rw [this ds _ hb hx, e0, h]
      exact h1.flushT x1.m hext
  refine ⟨defs', ?_, ?_⟩
  · rw [apply_end _ h1.nofail]; exact hfl.emit _ rfl
  · rw [apply_end _ h1.nofail]; exact (x1.flush h1.inv).emit _

theorem flush_ext (c : CS) (hm : ∀ a ∈ c.externs, a ∈ domOf c) (hi : Inv (abs c)) : c.flush.ext = c.ext := by
  obtain ⟨f1, f2, f3⟩ := flushMinimize_flags c
  have hm1 : ∀ a ∈ c.flushMinimize.externs, (c.flushMinimize.find a).isSome = true := by
    intro a ha
    exact dom_find _ a (dom_mono (flushMinimize_steps c) hi a (hm a (f2 ▸ ha)))
  have h2 : c.flushMinimize.flushExternal.ext = c.flushMinimize.ext := by
    cases he : c.flushMinimize.ext with
    | true => rw [flushExternal_specT _ he hm1]; exact he
    | false => rw [flushExternal_spec _ he hm1]; exact he
  have h3 : ∀ (l : List Convert.Heu) (c0 : CS), (l.foldl heuStep c0).ext = c0.ext := by
    intro l
    induction l with
    | nil => intro c0; rfl
    | cons h r ih =>
      intro c0
      obtain ⟨_, _, _, he, _⟩ := heuStep_frame c0 h
      exact (ih _).trans he
  have h4 : ∀ (l : List (Nat × List Nat)) (c0 : CS), (l.foldl (fun c p => c.emit (.output p.2 [(p.1 : Int)])) c0).ext = c0.ext := by
    intro l
    induction l with
    | nil => intro c0; rfl
    | cons h r ih => intro c0; exact ih _
  show c.flushMinimize.flushExternal.flushHeuristic.flushSymbols.ext = c.ext
  unfold CS.flushSymbols
  rw [h4, flushHeuristic_eq, h3, h2, f3]

/-- the calls of an incremental program of several steps -/
def stepsCalls (dss : List (List Call)) : List Call := .initProgram true :: dss.flatMap (fun ds => .beginStep :: (ds ++ [.endStep]))

/-- one step run from a state -/
def stepRun (c : CS) (ds : List Call) : CS := (ds.foldl CS.apply (c.apply .beginStep)).apply .endStep

theorem foldl_steps_eq (dss : List (List Call)) (c : CS) :
    (dss.flatMap (fun ds => Call.beginStep :: (ds ++ [Call.endStep]))).foldl CS.apply c = dss.foldl stepRun c := by
  induction dss generalizing c with
  | nil => rfl
  | cons ds r ih =>
    simp only [List.flatMap_cons, List.foldl_append, List.foldl_cons, List.foldl_nil]
    rw [ih]; rfl

theorem stepRun_ext {c : CS} {P defs} {t : T} (hj : J c P defs) (hxi : XI c t) (ds : List Call) (hx : ∀ d ∈ ds, PlainOk d) : (stepRun c ds).ext = c.ext := by
  have hb : J (c.apply .beginStep) P defs := by rw [apply_begin _ hj.nofail]; exact hj.emit _ rfl
  have xb : XI (c.apply .beginStep) t := by rw [apply_begin _ hj.nofail]; exact hxi.emit _
  obtain ⟨defs', h1, x1⟩ := run_JX hb xb ds hx
  have e0 : (c.apply .beginStep).ext = c.ext := by rw [apply_begin _ hj.nofail]; rfl
  have hrun : ∀ (l : List Call) (c0 : CS) {P0 d0}, J c0 P0 d0 → (∀ d ∈ l, PlainOk d) → (l.foldl CS.apply c0).ext = c0.ext := by
    intro l
    induction l with
    | nil => intro _ _ _ _ _; rfl
    | cons d r ih =>
      intro c0 P0 d0 hj0 hx0
      obtain ⟨d1, hj1⟩ := apply_plainJ hj0 d (hx0 d (by simp))
      simp only [List.foldl_cons]
      rw [ih _ hj1 (fun e he => hx0 e (by simp [he])), apply_plain_ext c0 hj0.nofail d (hx0 d (by simp))]
  unfold stepRun
  rw [apply_end _ h1.nofail]
  show (ds.foldl CS.apply (c.apply .beginStep)).flush.ext = c.ext
  rw [flush_ext _ x1.m h1.inv, hrun ds _ hb hx, e0]

/-- **several steps**: after any number of steps — without external directives, or with the extension on — the rules emitted in ALL steps are
    a translation of the rules given in all steps (`J`), and nothing is pending -/
theorem steps_JX (dss : List (List Call)) (hx : ∀ ds ∈ dss, ∀ d ∈ ds, PlainOk d) {c : CS} {P defs} {t : T} (hj : J c P defs) (hxi : XI c t) (ht : t.regs = [])
    (hE : (∀ ds ∈ dss, extCalls ds = []) ∨ c.ext = true) :
    ∃ defs' t', J (dss.foldl stepRun c) (P ++ (rulesOf dss.flatten).filter kept) defs' ∧ XI (dss.foldl stepRun c) t' ∧ t'.regs = [] := by
  induction dss generalizing c P defs t with
  | nil => exact ⟨defs, t, by simpa [rulesOf] using hj, hxi, ht⟩
  | cons ds r ih =>
    have hx1 : ∀ d ∈ ds, PlainOk d := hx ds (by simp)
    have hE1 : extCalls ds = [] ∨ c.ext = true := by
      rcases hE with h | h
      · exact Or.inl (h ds (by simp))
      · exact Or.inr h
    obtain ⟨defs1, h1, x1⟩ := step_JX hj hxi ht ds hx1 hE1
    have hext : (stepRun c ds).ext = c.ext := stepRun_ext hj hxi ds hx1
    have hE2 : (∀ ds' ∈ r, extCalls ds' = []) ∨ (stepRun c ds).ext = true := by
      rcases hE with h | h
      · exact Or.inl (fun ds' h' => h ds' (by simp [h']))
      · exact Or.inr (hext.trans h)
    obtain ⟨defs2, t2, h2, x2, r2⟩ := ih (fun ds' h' => hx ds' (by simp [h'])) (c := stepRun c ds) h1 x1 rfl hE2
    refine ⟨defs2, t2, ?_, x2, r2⟩
    simp only [List.foldl_cons, List.flatten_cons]
    have : rulesOf (ds ++ r.flatten) = rulesOf ds ++ rulesOf r.flatten := rulesOf_append _ _
    rw [this, List.filter_append, ← List.append_assoc]
    exact h2

/-! ### the external calls of several steps (extension on) -/
/-- the pending externals of each step with their last values, step after step: (atom, value) -/
def stepRegs : T → List (List Call) → List (Nat × Nat)
  | _, [] => []
  | t, ds :: r => ((t.run ds).regs.map (fun a => (a, (t.run ds).val a))) ++ stepRegs (t.run ds).next r

theorem run_frameXJ {c : CS} {P defs} (hj : J c P defs) (ds : List Call) (hx : ∀ d ∈ ds, PlainOk d) :
    extCalls (ds.foldl CS.apply c).out = extCalls c.out := by
  induction ds generalizing c P defs with
  | nil => rfl
  | cons d r ih =>
    obtain ⟨defs1, h1⟩ := apply_plainJ hj d (hx d (by simp))
    simp only [List.foldl_cons]
    rw [ih h1 (fun e he => hx e (by simp [he])), apply_frameX c hj.nofail d (hx d (by simp))]

/-- the external calls a step adds, with the images under ANY map that agrees with the atoms mapped at the end of the step -/
theorem step_extCalls {c : CS} {P defs} {t : T} (hj : J c P defs) (hxi : XI c t) (ds : List Call) (hx : ∀ d ∈ ds, PlainOk d) (he : c.ext = true)
    (m : Nat → Nat) (hm : Agree (stepRun c ds) m) :
    extCalls (stepRun c ds).out = extCalls c.out ++ (t.run ds).regs.map (fun a => (m a, (t.run ds).val a)) := by
  have hb : J (c.apply .beginStep) P defs := by rw [apply_begin _ hj.nofail]; exact hj.emit _ rfl
  have xb : XI (c.apply .beginStep) t := by rw [apply_begin _ hj.nofail]; exact hxi.emit _
  obtain ⟨defs', h1, x1⟩ := run_JX hb xb ds hx
  have hext : (ds.foldl CS.apply (c.apply .beginStep)).ext = true := by
    have e := stepRun_ext hj hxi ds hx
    unfold stepRun at e
    rw [apply_end _ h1.nofail] at e
    have : (ds.foldl CS.apply (c.apply .beginStep)).flush.ext = (ds.foldl CS.apply (c.apply .beginStep)).ext := flush_ext _ x1.m h1.inv
    have e' : (ds.foldl CS.apply (c.apply .beginStep)).flush.ext = c.ext := e
    rw [← this, e', he]
  have h0 : extCalls (ds.foldl CS.apply (c.apply .beginStep)).out = extCalls c.out := by
    rw [run_frameXJ hb ds hx, apply_begin _ hj.nofail, emit_frameX _ _ rfl]
  unfold stepRun at hm ⊢
  rw [apply_end _ h1.nofail] at hm ⊢
  rw [flush_extCalls_app _ hext x1.m h1.inv, h0, x1.r]
  congr 1
  apply List.map_congr_left
  intro a ha
  have hs1 : Steps (abs (ds.foldl CS.apply (c.apply .beginStep)).flushMinimize) (abs ((ds.foldl CS.apply (c.apply .beginStep)).flush.emit .endStep)) := by
    have h := (flushExternal_steps (ds.foldl CS.apply (c.apply .beginStep)).flushMinimize).trans ((flushHeuristic_steps _).trans (flushSymbols_steps _))
    exact h
  have hi1 : Inv (abs (ds.foldl CS.apply (c.apply .beginStep)).flushMinimize) := steps_inv' (flushMinimize_steps _) h1.inv
  have hag := agree_back hs1 hi1 hm
  have hd1 : a ∈ domOf (ds.foldl CS.apply (c.apply .beginStep)).flushMinimize :=
    dom_mono (flushMinimize_steps _) h1.inv a (x1.m a (x1.r ▸ ha))
  rw [sm_agree _ hi1 _ hag a hd1, x1.v a]

/-- **several steps, extension on**: the external calls of all steps, under one final map -/
theorem steps_extCalls (dss : List (List Call)) (hx : ∀ ds ∈ dss, ∀ d ∈ ds, PlainOk d) {c : CS} {P defs} {t : T} (hj : J c P defs) (hxi : XI c t) (ht : t.regs = [])
    (he : c.ext = true) (m : Nat → Nat) (hm : Agree (dss.foldl stepRun c) m) :
    extCalls (dss.foldl stepRun c).out = extCalls c.out ++ (stepRegs t dss).map (fun p => (m p.1, p.2)) := by
  induction dss generalizing c P defs t with
  | nil => simp [stepRegs]
  | cons ds r ih =>
    have hx1 : ∀ d ∈ ds, PlainOk d := hx ds (by simp)
    obtain ⟨defs1, h1, x1⟩ := step_JX hj hxi ht ds hx1 (Or.inr he)
    have hext : (stepRun c ds).ext = true := (stepRun_ext hj hxi ds hx1).trans he
    simp only [List.foldl_cons] at hm ⊢
    have hxr : ∀ ds' ∈ r, ∀ d ∈ ds', PlainOk d := fun ds' h' => hx ds' (by simp [h'])
    -- the later steps only extend the map
    obtain ⟨defs2, t2, h2, _, _⟩ := steps_JX r hxr (c := stepRun c ds) h1 x1 rfl (Or.inr hext)
    have hsteps : Steps (abs (stepRun c ds)) (abs (r.foldl stepRun (stepRun c ds))) := by
      have : ∀ (l : List (List Call)) (c0 : CS), Steps (abs c0) (abs (l.foldl stepRun c0)) := by
        intro l
        induction l with
        | nil => intro c0; exact .refl _
        | cons d l ih2 =>
          intro c0
          simp only [List.foldl_cons]
          refine Steps.trans ?_ (ih2 _)
          unfold stepRun
          exact (apply_steps _ _).trans ((convert_steps _ _).trans (apply_steps _ _))
      exact this r _
    have hm1 : Agree (stepRun c ds) m := agree_back hsteps h1.inv hm
    have h1' : J (stepRun c ds) (P ++ (rulesOf ds).filter kept) defs1 := h1
    have x1' : XI (stepRun c ds) (t.run ds).next := x1
    rw [ih hxr h1' x1' rfl hext hm, step_extCalls hj hxi ds hx1 he m hm1]
    simp [stepRegs, List.append_assoc, List.map_map, Function.comp]

end PotasscoVerif.C02
