/-
  Helper lemmas for C11: the memory-block model of `RuleBuilder` refines the list specification.
-/
import PotasscoVerif.Model.RuleBuilder
import PotasscoVerif.Spec.RuleSpec
namespace PotasscoVerif.RuleBuilder
open PotasscoVerif.RuleSpec

/-- word encoding of a body: literals only for a normal body, (literal, weight) pairs otherwise. -/
def enc (bt : Nat) (body : List (Int × Int)) : List Int :=
  if bt = 0 then body.map (·.1) else body.flatMap (fun p => [p.1, p.2])

theorem take_set_succ : ∀ (l : List Int) (k : Nat) (v : Int), k < l.length →
    (l.set k v).take (k + 1) = l.take k ++ [v] := by
  intro l
  induction l with
  | nil => intro k v h; simp at h
  | cons x l ih =>
    intro k v h
    cases k with
    | zero => simp
    | succ k => simp at h; simp [ih k v h]

theorem getD_take (l : List Int) (n i : Nat) (h : i < n) : (l.take n).getD i 0 = l.getD i 0 := by
  simp [List.getD, h]

/-- the effect of a push at `top` on the block: the prefix below `top` is kept, word `top` is `v`. -/
theorem pushAt_spec (m : Mem) (top : Nat) (v : Int) (h1 : HDR ≤ top) (h2 : top ≤ m.size) (hv : m.viol = false) :
    (m.pushAt top v).data.take (top + 1 - HDR) = m.data.take (top - HDR) ++ [v] ∧
    top + 1 ≤ (m.pushAt top v).size ∧ (m.pushAt top v).viol = false := by
  have hk : top + 1 - HDR = (top - HDR) + 1 := by omega
  unfold Mem.pushAt Mem.wr Mem.grow Mem.inRange Mem.size at *
  by_cases hg : top + 1 > HDR + m.data.length
  · have he : top - HDR = m.data.length := by omega
    have hrep : top + 1 - (HDR + m.data.length) = 1 := by omega
    simp only [hg, ↓reduceIte, hk, hrep, he]
    refine ⟨?_, ?_, ?_⟩
    · simp; exact List.take_of_length_le (by simp)
    · simp; omega
    · simp [hv]; omega
  · simp only [hg, ↓reduceIte, hk]
    have hlt : top - HDR < m.data.length := by omega
    refine ⟨take_set_succ _ _ _ hlt, ?_, ?_⟩
    · simp; omega
    · simp [hv]; omega

theorem words_pushAt_below (m : Mem) (top : Nat) (v : Int) (b e : Nat) (h1 : HDR ≤ top) (h2 : top ≤ m.size)
    (hv : m.viol = false) (hs : e ≤ top) : (m.pushAt top v).words b e = m.words b e := by
  have hp := (pushAt_spec m top v h1 h2 hv).1
  unfold Mem.words
  have e1 : (m.pushAt top v).data.take (e - HDR) = ((m.pushAt top v).data.take (top + 1 - HDR)).take (e - HDR) := by
    rw [List.take_take]; congr 1; omega
  have e2 : m.data.take (e - HDR) = (m.data.take (top - HDR)).take (e - HDR) := by
    rw [List.take_take]; congr 1; omega
  rw [e1, hp, e2, List.take_append_of_le_length]
  unfold Mem.size at h2
  simp; omega

theorem words_pushAt_ext (m : Mem) (top : Nat) (v : Int) (b : Nat) (h1 : HDR ≤ top) (h2 : top ≤ m.size)
    (hv : m.viol = false) (hb : b ≤ top) :
    (m.pushAt top v).words b (top + 1) = m.words b top ++ [v] := by
  have hp := (pushAt_spec m top v h1 h2 hv).1
  unfold Mem.words
  rw [hp, List.drop_append_of_le_length]
  unfold Mem.size at h2
  simp; omega

theorem rd_pushAt_below (m : Mem) (top : Nat) (v : Int) (i : Nat) (h1 : HDR ≤ top) (h2 : top ≤ m.size)
    (hv : m.viol = false) (hi0 : HDR ≤ i) (hi : i < top) : (m.pushAt top v).rd i = m.rd i := by
  have hp := (pushAt_spec m top v h1 h2 hv).1
  unfold Mem.rd
  rw [← getD_take (m.pushAt top v).data (top + 1 - HDR) (i - HDR) (by omega), hp]
  rw [← getD_take m.data (top - HDR) (i - HDR) (by omega)]
  have hlt : i - HDR < (m.data.take (top - HDR)).length := by
    unfold Mem.size at h2; simp; omega
  simp [List.getD, List.getElem?_append_left hlt]

theorem rd_pushAt_top (m : Mem) (top : Nat) (v : Int) (h1 : HDR ≤ top) (h2 : top ≤ m.size)
    (hv : m.viol = false) : (m.pushAt top v).rd top = v := by
  have hp := (pushAt_spec m top v h1 h2 hv).1
  unfold Mem.rd
  rw [← getD_take (m.pushAt top v).data (top + 1 - HDR) (top - HDR) (by omega), hp]
  unfold Mem.size at h2
  have hl : (m.data.take (top - HDR)).length = top - HDR := by simp; omega
  simp [List.getD, hl]

theorem words_length (m : Mem) (b e : Nat) (h1 : HDR ≤ b) (h2 : b ≤ e) (h3 : e ≤ m.size) :
    (m.words b e).length = e - b := by
  unfold Mem.words; unfold Mem.size at h3; simp; omega

theorem words_empty (m : Mem) (b e : Nat) (h : e ≤ b) : m.words b e = [] := by
  unfold Mem.words
  apply List.drop_eq_nil_of_le
  simp; omega

/-- the refinement relation between the memory block and the abstract rule. -/
structure R (c : RB) (a : AR) : Prop where
  noviol : c.mem.viol = false
  fix    : c.fix = a.frozen
  top_ge : HDR ≤ c.top
  top_le : c.top ≤ c.mem.size
  h_un   : a.hStarted = false → c.head = {} ∧ a.head = [] ∧ a.ht = 0
  h_st   : a.hStarted = true → HDR ≤ c.head.mbeg ∧ c.head.mbeg ≤ c.head.mend ∧ c.head.mend ≤ c.top ∧
             c.head.type = a.ht ∧ c.mem.words c.head.mbeg c.head.mend = a.head
  b_un   : a.bStarted = false → c.body = {} ∧ a.body = [] ∧ a.bt = 0
  b_st   : a.bStarted = true → HDR + (if a.bt = 0 then 0 else 1) ≤ c.body.mbeg ∧ c.body.mbeg ≤ c.body.mend ∧
             c.body.mend ≤ c.top ∧ c.body.type = a.bt ∧ c.mem.words c.body.mbeg c.body.mend = enc a.bt a.body ∧
             (a.bt ≠ 0 → c.mem.rd (c.body.mbeg - 1) = a.bound)
  w1     : a.bt = 0 → ∀ p ∈ a.body, p.2 = 1
  last_h : a.last = .head → a.hStarted = true ∧ c.head.mend = c.top ∧
             (a.bStarted = true → c.body.mend ≤ c.head.mbeg)
  last_b : a.last = .body → a.bStarted = true ∧ c.body.mend = c.top ∧
             (a.hStarted = true → c.head.mend + (if a.bt = 0 then 0 else 1) ≤ c.body.mbeg)
  last_n : a.last = .none → a.hStarted = false ∧ a.bStarted = false
  min_sum : a.ht = 2 → a.bt ≠ 0

theorem R_init : R RB.init AR.init := by
  refine ⟨rfl, rfl, ?_, ?_, ?_, ?_, ?_, ?_, ?_, ?_, ?_, ?_, ?_⟩ <;> simp [RB.init, AR.init, HDR, Mem.size]

theorem R_clear {c a} (h : R c a) : R c.clear AR.init := by
  have := h.top_ge; have := h.top_le
  refine ⟨h.noviol, rfl, ?_, ?_, ?_, ?_, ?_, ?_, ?_, ?_, ?_, ?_, ?_⟩ <;>
    simp [RB.clear, AR.init, HDR, Mem.size] at * <;> omega

theorem R_unfreeze {c a} (h : R c a) (d : Bool) : R (c.unfreeze d) (a.unfreeze d) := by
  unfold RB.unfreeze AR.unfreeze
  rw [h.fix]
  cases hf : a.frozen with
  | false => simpa using h
  | true =>
    cases d with
    | true => simpa using R_clear h
    | false =>
      simp only [↓reduceIte, Bool.false_eq_true]
      exact ⟨h.noviol, rfl, h.top_ge, h.top_le, h.h_un, h.h_st, h.b_un, h.b_st, h.w1, h.last_h, h.last_b,
        h.last_n, h.min_sum⟩

theorem unfreeze_notfrozen {a : AR} : (a.unfreeze true).frozen = false := by
  unfold AR.unfreeze; cases hf : a.frozen <;> simp [AR.init, hf]

/-- body facts are kept by a push above the body. -/
theorem body_keep {c a} (h : R c a) (v : Int) (hb : a.bStarted = true) :
    (c.mem.pushAt c.top v).words c.body.mbeg c.body.mend = enc a.bt a.body ∧
    (a.bt ≠ 0 → (c.mem.pushAt c.top v).rd (c.body.mbeg - 1) = a.bound) := by
  have hb' := h.b_st hb
  refine ⟨?_, ?_⟩
  · rw [words_pushAt_below c.mem c.top v _ _ h.top_ge h.top_le h.noviol hb'.2.2.1]; exact hb'.2.2.2.2.1
  · intro hne
    have h1 : HDR + 1 ≤ c.body.mbeg := by have := hb'.1; simp [hne] at this; exact this
    rw [rd_pushAt_below c.mem c.top v _ h.top_ge h.top_le h.noviol (by omega) (by have := hb'.2.1; have := hb'.2.2.1; omega)]
    exact hb'.2.2.2.2.2 hne

theorem head_keep {c a} (h : R c a) (v : Int) (hs : a.hStarted = true) :
    (c.mem.pushAt c.top v).words c.head.mbeg c.head.mend = a.head := by
  have hh := h.h_st hs
  rw [words_pushAt_below c.mem c.top v _ _ h.top_ge h.top_le h.noviol hh.2.2.1]; exact hh.2.2.2.2

theorem start_ref {c a a'} (h0 : R c a) (ht : Nat) (hs : a.start ht = some a') :
    ∃ c', c.start ht = some c' ∧ R c' a' := by
  have h := R_unfreeze h0 true
  unfold AR.start at hs
  unfold RB.start
  generalize a.unfreeze true = a1 at h hs
  generalize c.unfreeze true = c1 at h
  simp only [] at hs ⊢
  by_cases hht : ht ≥ 2
  · simp [hht] at hs
  · simp only [hht, ↓reduceIte] at hs
    by_cases hc : (a1.hStarted && !a1.head.isEmpty) = true
    · simp [hc] at hs
    · simp only [hc, Bool.false_eq_true, ↓reduceIte, Option.some.injEq] at hs
      subst hs
      have htop := h.top_ge; have htl := h.top_le
      have hguard : (!(c1.head.mbeg == 0 || c1.head.len == 0)) = false := by
        cases hst : a1.hStarted with
        | false => have := (h.h_un hst).1; simp [this]
        | true =>
          have hh := h.h_st hst
          have hemp : a1.head = [] := by simpa [hst] using hc
          have hl := words_length c1.mem _ _ hh.1 hh.2.1 (Nat.le_trans hh.2.2.1 htl)
          rw [hh.2.2.2.2, hemp] at hl
          simp [Span.len]; intro _; simp at hl; omega
      simp only [hguard, Bool.false_eq_true, ↓reduceIte]
      refine ⟨_, rfl, ?_⟩
      refine ⟨h.noviol, h.fix, htop, htl, ?_, ?_, h.b_un, h.b_st, h.w1, ?_, ?_, ?_, ?_⟩
      · intro hf; cases hf
      · intro _; exact ⟨htop, Nat.le_refl _, Nat.le_refl _, rfl, words_empty _ _ _ (Nat.le_refl _)⟩
      · intro _; exact ⟨rfl, rfl, fun hb => (h.b_st hb).2.2.1⟩
      · intro hl; cases hl
      · intro hl; cases hl
      · intro h2; simp only [] at h2; omega

theorem addHead_ref {c a a'} (h : R c a) (x : Int) (hs : a.addHead x = some a') :
    ∃ c', c.addHead x = some c' ∧ R c' a' := by
  unfold AR.addHead at hs
  unfold RB.addHead
  have hfix := h.fix
  cases hfr : a.frozen with
  | true => simp [hfr] at hs
  | false =>
    rw [hfr] at hfix
    simp only [hfr, Bool.false_eq_true, ↓reduceIte] at hs
    simp only [hfix, Bool.false_eq_true, ↓reduceIte]
    have htop := h.top_ge; have htl := h.top_le
    have hp := pushAt_spec c.mem c.top x htop htl h.noviol
    cases hst : a.hStarted with
    | false =>
      simp only [hst, Bool.not_false, ↓reduceIte, Option.some.injEq] at hs
      subst hs
      have hun := h.h_un hst
      have hm0 : (c.head.mend == 0) = true := by rw [hun.1]; rfl
      simp only [hm0, ↓reduceIte]
      have hbm : c.body.mend ≤ c.top := by
        cases hb : a.bStarted with
        | false => rw [(h.b_un hb).1]; exact Nat.zero_le _
        | true => exact (h.b_st hb).2.2.1
      have hg : (!decide (c.top ≥ c.body.mend)) = false := by simp; exact hbm
      simp only [hg, Bool.false_eq_true, ↓reduceIte]
      refine ⟨_, rfl, ?_⟩
      refine ⟨hp.2.2, by simp [hfix, hfr], by show HDR ≤ c.top + 1; omega, hp.2.1, ?_, ?_, h.b_un, ?_, h.w1, ?_, ?_, ?_, ?_⟩
      · intro hf; cases hf
      · intro _
        refine ⟨htop, Nat.le_succ _, Nat.le_refl _, rfl, ?_⟩
        have := words_pushAt_ext c.mem c.top x c.top htop htl h.noviol (Nat.le_refl _)
        rw [words_empty c.mem _ _ (Nat.le_refl _)] at this
        simpa using this
      · intro hb
        have hb' := h.b_st hb
        have bp := body_keep h x hb
        exact ⟨hb'.1, hb'.2.1, Nat.le_succ_of_le hb'.2.2.1, hb'.2.2.2.1, bp.1, bp.2⟩
      · intro _; exact ⟨rfl, rfl, fun _ => hbm⟩
      · intro hl; cases hl
      · intro hl; cases hl
      · intro h2; cases h2
    | true =>
      simp only [hst, Bool.not_true, Bool.false_eq_true, ↓reduceIte] at hs
      by_cases hlast : a.last = .head
      · simp only [hlast, bne_self_eq_false, Bool.false_eq_true, ↓reduceIte, Option.some.injEq] at hs
        subst hs
        have hh := h.h_st hst
        have hlh := h.last_h hlast
        have hm0 : (c.head.mend == 0) = false := by simp [HDR] at *; omega
        simp only [hm0, Bool.false_eq_true, ↓reduceIte]
        have hbm : c.body.mend ≤ c.head.mbeg := by
          cases hb : a.bStarted with
          | false => rw [(h.b_un hb).1]; exact Nat.zero_le _
          | true => exact hlh.2.2 hb
        have hg : (!decide (c.head.mbeg ≥ c.body.mend)) = false := by simp; exact hbm
        simp only [hg, Bool.false_eq_true, ↓reduceIte]
        refine ⟨_, rfl, ?_⟩
        refine ⟨hp.2.2, by simp [hfix, hfr], by show HDR ≤ c.top + 1; omega, hp.2.1, ?_, ?_, h.b_un, ?_, h.w1, ?_, ?_, ?_, h.min_sum⟩
        · intro hf; simp at hf
        · intro _
          refine ⟨hh.1, by show c.head.mbeg ≤ c.top + 1; omega, Nat.le_refl _, hh.2.2.2.1, ?_⟩
          have := words_pushAt_ext c.mem c.top x c.head.mbeg htop htl h.noviol (by omega)
          rw [← hlh.2.1, hh.2.2.2.2] at this
          rw [← hlh.2.1]; exact this
        · intro hb
          have hb' := h.b_st hb
          have bp := body_keep h x hb
          exact ⟨hb'.1, hb'.2.1, Nat.le_succ_of_le hb'.2.2.1, hb'.2.2.2.1, bp.1, bp.2⟩
        · intro _; exact ⟨rfl, rfl, fun _ => hbm⟩
        · intro hl; cases hl
        · intro hl; cases hl
      · have : (a.last != Part.head) = true := by simp [hlast]
        simp [this] at hs

theorem startBodyT_ref {c a a'} (h0 : R c a) (bt : Nat) (bnd : Int) (hs : a.startBodyT bt bnd = some a') :
    ∃ c', c.startBodyT bt bnd = some c' ∧ R c' a' := by
  have h := R_unfreeze h0 true
  unfold AR.startBodyT at hs
  unfold RB.startBodyT
  generalize a.unfreeze true = a1 at h hs
  generalize c.unfreeze true = c1 at h
  simp only [] at hs ⊢
  have htop := h.top_ge; have htl := h.top_le
  cases hbs : a1.bStarted with
  | false =>
    simp only [hbs, Bool.not_false, ↓reduceIte, Option.some.injEq] at hs
    subst hs
    have hun := h.b_un hbs
    have hm0 : (c1.body.mend == 0) = true := by rw [hun.1]; rfl
    simp only [hm0, ↓reduceIte]
    have hhm : a1.hStarted = true → c1.head.mend ≤ c1.top := fun hs => (h.h_st hs).2.2.1
    have hnot2 : a1.ht ≠ 2 := by intro h2; exact h.min_sum h2 hun.2.2
    by_cases hbt : bt = 0
    · subst hbt
      simp only [bne_self_eq_false, Bool.false_eq_true, ↓reduceIte]
      refine ⟨_, rfl, ?_⟩
      refine ⟨h.noviol, h.fix, htop, htl, h.h_un, h.h_st, ?_, ?_, ?_, ?_, ?_, ?_, ?_⟩
      · intro hf; cases hf
      · intro _
        exact ⟨by simp; exact htop, Nat.le_refl _, Nat.le_refl _, rfl, by simp [enc]; exact words_empty _ _ _ (Nat.le_refl _),
          by intro hne; exact absurd rfl hne⟩
      · intro _ p hp; cases hp
      · intro hl; cases hl
      · intro _; exact ⟨rfl, rfl, fun hs => by simpa using hhm hs⟩
      · intro hl; cases hl
      · intro h2; exact absurd h2 hnot2
    · have hne : (bt != 0) = true := by simp [hbt]
      simp only [hne, ↓reduceIte]
      have hp := pushAt_spec c1.mem c1.top bnd htop htl h.noviol
      refine ⟨_, rfl, ?_⟩
      refine ⟨hp.2.2, h.fix, by show HDR ≤ c1.top + 1; omega, hp.2.1, ?_, ?_, ?_, ?_, ?_, ?_, ?_, ?_, ?_⟩
      · exact h.h_un
      · intro hs
        have hh := h.h_st hs
        exact ⟨hh.1, hh.2.1, Nat.le_succ_of_le hh.2.2.1, hh.2.2.2.1, head_keep h bnd hs⟩
      · intro hf; cases hf
      · intro _
        refine ⟨by simp [hbt]; omega, Nat.le_refl _, Nat.le_refl _, rfl, ?_, ?_⟩
        · simp [enc, hbt]; exact words_empty _ _ _ (Nat.le_refl _)
        · intro _
          have hb0 : (bt == 0) = false := by simp [hbt]
          simp only [hb0, Bool.false_eq_true, ↓reduceIte]
          show (c1.mem.pushAt c1.top bnd).rd (c1.top + 1 - 1) = bnd
          rw [Nat.add_sub_cancel]
          exact rd_pushAt_top c1.mem c1.top bnd htop htl h.noviol
      · intro h0 p hp; cases hp
      · intro hl; cases hl
      · intro _
        refine ⟨rfl, rfl, ?_⟩
        intro hs; have := hhm hs; simp [hbt]; omega
      · intro hl; cases hl
      · intro h2; exact absurd h2 hnot2
  | true =>
    simp only [hbs, Bool.not_true, Bool.false_eq_true, ↓reduceIte] at hs
    have hb' := h.b_st hbs
    have hm0 : (c1.body.mend == 0) = false := by simp [HDR] at *; omega
    simp only [hm0, Bool.false_eq_true, ↓reduceIte]
    by_cases hemp : a1.body.isEmpty = true
    · simp only [hemp, ↓reduceIte, Option.some.injEq] at hs
      subst hs
      have hl := words_length c1.mem _ _ (by have := hb'.1; omega) hb'.2.1 (Nat.le_trans hb'.2.2.1 htl)
      rw [hb'.2.2.2.2.1] at hl
      have hnil : a1.body = [] := by simpa using hemp
      rw [hnil] at hl
      have : (c1.body.len == 0) = true := by simp [Span.len, enc] at *; omega
      simp only [this, ↓reduceIte]
      exact ⟨_, rfl, h⟩
    · simp [hemp] at hs

theorem startMinimize_ref {c a a'} (h0 : R c a) (p : Int) (hs : a.startMinimize p = some a') :
    ∃ c', c.startMinimize p = some c' ∧ R c' a' := by
  have h := R_unfreeze h0 true
  unfold AR.startMinimize at hs
  unfold RB.startMinimize
  generalize a.unfreeze true = a1 at h hs
  generalize c.unfreeze true = c1 at h
  simp only [] at hs ⊢
  have htop := h.top_ge; have htl := h.top_le
  cases hst : a1.hStarted with
  | true => simp [hst] at hs
  | false =>
    cases hbs : a1.bStarted with
    | true => simp [hst, hbs] at hs
    | false =>
      simp only [hst, hbs, Bool.or_self, Bool.false_eq_true, ↓reduceIte, Option.some.injEq] at hs
      subst hs
      have hg : (!(c1.head.mbeg == 0 && c1.body.mbeg == 0)) = false := by
        rw [(h.h_un hst).1, (h.b_un hbs).1]; rfl
      simp only [hg, Bool.false_eq_true, ↓reduceIte]
      have hp := pushAt_spec c1.mem c1.top p htop htl h.noviol
      refine ⟨_, rfl, ?_⟩
      refine ⟨hp.2.2, h.fix, by show HDR ≤ c1.top + 1; omega, hp.2.1, ?_, ?_, ?_, ?_, ?_, ?_, ?_, ?_, ?_⟩
      · intro hf; cases hf
      · intro _; exact ⟨htop, Nat.le_refl _, Nat.le_succ _, rfl, words_empty _ _ _ (Nat.le_refl _)⟩
      · intro hf; cases hf
      · intro _
        refine ⟨by simp; omega, Nat.le_refl _, Nat.le_refl _, rfl, ?_, ?_⟩
        · simp [enc]; exact words_empty _ _ _ (Nat.le_refl _)
        · intro _
          show (c1.mem.pushAt c1.top p).rd (c1.top + 1 - 1) = p
          rw [Nat.add_sub_cancel]
          exact rd_pushAt_top c1.mem c1.top p htop htl h.noviol
      · intro h0; cases h0
      · intro hl; cases hl
      · intro _; exact ⟨rfl, rfl, fun _ => by simp⟩
      · intro hl; cases hl
      · intro _ h2; cases h2

theorem enc_append0 (body : List (Int × Int)) (l : Int) : enc 0 (body ++ [(l, 1)]) = enc 0 body ++ [l] := by
  simp [enc]

theorem enc_appendS (bt : Nat) (hbt : bt ≠ 0) (body : List (Int × Int)) (l w : Int) :
    enc bt (body ++ [(l, w)]) = enc bt body ++ [l] ++ [w] := by
  simp [enc, hbt]

/-- the generic step of `addGoal` once the body span `bd` (at the top of the block) is known. -/
theorem addGoal_core {c a} (h : R c a) (hfr : a.frozen = false) (hbs : a.bStarted = true) (hlast : a.last = .body)
    (l w : Int) (hw : w ≠ 0) :
    R (if c.body.type == 0 then
         { c with mem := c.mem.pushAt c.top l, top := c.top + 1, body := { c.body with mend := c.top + 1 } }
       else
         { c with mem := (c.mem.pushAt c.top l).pushAt (c.top + 1) w, top := c.top + 2,
                  body := { c.body with mend := c.top + 2 } })
      { a with body := a.body ++ [(l, if a.bt == 0 then 1 else w)] } := by
  have htop := h.top_ge; have htl := h.top_le
  have hb' := h.b_st hbs
  have hlb := h.last_b hlast
  have hp := pushAt_spec c.mem c.top l htop htl h.noviol
  have hhead : a.hStarted = true → c.head.mend ≤ c.top := fun hs => (h.h_st hs).2.2.1
  by_cases hbt : a.bt = 0
  · have ht0 : (c.body.type == 0) = true := by rw [hb'.2.2.2.1, hbt]; rfl
    have hb0 : (a.bt == 0) = true := by rw [hbt]; rfl
    simp only [ht0, hb0, ↓reduceIte]
    refine ⟨hp.2.2, h.fix, by show HDR ≤ c.top + 1; omega, hp.2.1, h.h_un, ?_, ?_, ?_, ?_, ?_, ?_, h.last_n, h.min_sum⟩
    · intro hs
      have hh := h.h_st hs
      exact ⟨hh.1, hh.2.1, Nat.le_succ_of_le hh.2.2.1, hh.2.2.2.1, head_keep h l hs⟩
    · intro hf; rw [hbs] at hf; cases hf
    · intro _
      refine ⟨hb'.1, by show c.body.mbeg ≤ c.top + 1; omega, Nat.le_refl _, hb'.2.2.2.1, ?_, fun hne => absurd hbt hne⟩
      have := words_pushAt_ext c.mem c.top l c.body.mbeg htop htl h.noviol (by omega)
      rw [← hlb.2.1, hb'.2.2.2.2.1] at this
      show (c.mem.pushAt c.top l).words c.body.mbeg (c.top + 1) = enc a.bt (a.body ++ [(l, 1)])
      rw [← hlb.2.1, this, hbt, enc_append0]
    · intro _ p hp
      rcases List.mem_append.mp hp with hm | hm
      · exact h.w1 hbt p hm
      · simp at hm; rw [hm]
    · intro hl; rw [hlast] at hl; cases hl
    · intro _
      refine ⟨hbs, rfl, ?_⟩
      intro hs; have := hlb.2.2 hs; simpa [hbt] using this
  · have ht0 : (c.body.type == 0) = false := by rw [hb'.2.2.2.1]; simp [hbt]
    have hb0 : (a.bt == 0) = false := by simp [hbt]
    simp only [ht0, hb0, Bool.false_eq_true, ↓reduceIte]
    have hp2 := pushAt_spec (c.mem.pushAt c.top l) (c.top + 1) w (by omega) hp.2.1 hp.2.2
    have hmb : HDR + 1 ≤ c.body.mbeg := by have := hb'.1; simpa [hbt] using this
    refine ⟨hp2.2.2, h.fix, by show HDR ≤ c.top + 2; omega, hp2.2.1, h.h_un, ?_, ?_, ?_, ?_, ?_, ?_, h.last_n, h.min_sum⟩
    · intro hs
      have hh := h.h_st hs
      refine ⟨hh.1, hh.2.1, Nat.le_trans hh.2.2.1 (Nat.le_add_right _ 2), hh.2.2.2.1, ?_⟩
      have hk := words_pushAt_below (c.mem.pushAt c.top l) (c.top + 1) w c.head.mbeg c.head.mend (by omega) hp.2.1 hp.2.2
        (by have := hh.2.2.1; omega)
      exact hk.trans (head_keep h l hs)
    · intro hf; rw [hbs] at hf; cases hf
    · intro _
      refine ⟨hb'.1, by show c.body.mbeg ≤ c.top + 2; omega, Nat.le_refl _, hb'.2.2.2.1, ?_, ?_⟩
      · have e1 := words_pushAt_ext c.mem c.top l c.body.mbeg htop htl h.noviol (by omega)
        have e2 := words_pushAt_ext (c.mem.pushAt c.top l) (c.top + 1) w c.body.mbeg (by omega) hp.2.1 hp.2.2 (by omega)
        rw [← hlb.2.1, hb'.2.2.2.2.1] at e1
        show ((c.mem.pushAt c.top l).pushAt (c.top + 1) w).words c.body.mbeg (c.top + 2) = enc a.bt (a.body ++ [(l, w)])
        rw [e2, ← hlb.2.1, e1, enc_appendS a.bt hbt]
      · intro hne
        show ((c.mem.pushAt c.top l).pushAt (c.top + 1) w).rd (c.body.mbeg - 1) = a.bound
        have hk := rd_pushAt_below (c.mem.pushAt c.top l) (c.top + 1) w (c.body.mbeg - 1) (by omega) hp.2.1 hp.2.2
          (by omega) (by have := hb'.2.1; have := hb'.2.2.1; omega)
        exact hk.trans ((body_keep h l hbs).2 hne)
    · intro h0; exact absurd h0 hbt
    · intro hl; rw [hlast] at hl; cases hl
    · intro _
      refine ⟨hbs, rfl, ?_⟩
      intro hs; have := hlb.2.2 hs; simpa [hbt] using this

theorem unfreeze_id_c {c : RB} (h : c.fix = false) (d : Bool) : c.unfreeze d = c := by
  unfold RB.unfreeze; simp [h]

theorem unfreeze_id_a {a : AR} (h : a.frozen = false) (d : Bool) : a.unfreeze d = a := by
  unfold AR.unfreeze; simp [h]

theorem addGoal_ref {c a a'} (h : R c a) (l w : Int) (hs : a.addGoal l w = some a') :
    ∃ c', c.addGoal l w = some c' ∧ R c' a' := by
  unfold AR.addGoal at hs
  have hfix := h.fix
  cases hfr : a.frozen with
  | true => simp [hfr] at hs
  | false =>
    rw [hfr] at hfix
    simp only [hfr, Bool.false_eq_true, ↓reduceIte] at hs
    cases hbs : a.bStarted with
    | false =>
      simp only [hbs, Bool.not_false, ↓reduceIte, Option.some.injEq] at hs
      -- implicit `startBody()`
      have hsb : a.startBodyT 0 (-1) = some { a with bStarted := true, bt := 0, bound := -1, body := [], last := .body } := by
        unfold AR.startBodyT; rw [unfreeze_id_a hfr]; simp [hbs]
      obtain ⟨c0, hc0, hR0⟩ := startBodyT_ref h 0 (-1) hsb
      have hun := h.b_un hbs
      have hc0' : c0 = { c with body := { mbeg := c.top, mend := c.top, type := 0 } } := by
        unfold RB.startBodyT at hc0
        rw [unfreeze_id_c hfix] at hc0
        have hm0 : (c.body.mend == 0) = true := by rw [hun.1]; rfl
        simp [hm0] at hc0
        exact hc0.symm
      have hmb0 : (c.body.mbeg == 0) = true := by rw [hun.1]; rfl
      have hhm : c.head.mend ≤ c.top := by
        cases hst : a.hStarted with
        | false => rw [(h.h_un hst).1]; exact Nat.zero_le _
        | true => exact (h.h_st hst).2.2.1
      have hg : (!decide (c.top ≥ c.head.mend)) = false := by simp; exact hhm
      unfold RB.addGoal
      simp only [hfix, Bool.false_eq_true, ↓reduceIte, hmb0, hg]
      by_cases hw : w = 0
      · subst hw
        simp only [beq_self_eq_true, ↓reduceIte] at hs ⊢
        subst hs
        exact ⟨_, rfl, by rw [hc0'] at hR0; simpa [hfix, hfr] using hR0⟩
      · have hw0 : (w == 0) = false := by simp [hw]
        simp only [hw0, Bool.false_eq_true, ↓reduceIte] at hs ⊢
        subst hs
        have hcore := addGoal_core hR0 hfr rfl rfl l w hw
        rw [hc0'] at hcore
        simp only [beq_self_eq_true, ↓reduceIte, List.nil_append] at hcore
        exact ⟨_, rfl, by simpa [hfix, hfr] using hcore⟩
    | true =>
      simp only [hbs, Bool.not_true, Bool.false_eq_true, ↓reduceIte] at hs
      by_cases hlast : a.last = .body
      · simp only [hlast, bne_self_eq_false, Bool.false_eq_true, ↓reduceIte] at hs
        have hb' := h.b_st hbs
        have hlb := h.last_b hlast
        have hmb0 : (c.body.mbeg == 0) = false := by have := hb'.1; simp [HDR] at *; omega
        have hhm : c.head.mend ≤ c.body.mbeg := by
          cases hst : a.hStarted with
          | false => rw [(h.h_un hst).1]; exact Nat.zero_le _
          | true => have := hlb.2.2 hst; omega
        have hg : (!decide (c.body.mbeg ≥ c.head.mend)) = false := by simp; exact hhm
        unfold RB.addGoal
        simp only [hfix, Bool.false_eq_true, ↓reduceIte, hmb0, hg]
        by_cases hw : w = 0
        · subst hw
          simp only [beq_self_eq_true, ↓reduceIte, Option.some.injEq] at hs ⊢
          subst hs
          exact ⟨_, rfl, by have h' := h; rcases c with ⟨m, t, f, hd, bd⟩; simp at hfix; subst hfix; exact h'⟩
        · have hw0 : (w == 0) = false := by simp [hw]
          simp only [hw0, Bool.false_eq_true, ↓reduceIte, Option.some.injEq] at hs ⊢
          subst hs
          have hcore := addGoal_core h hfr hbs hlast l w hw
          by_cases ht : (c.body.type == 0) = true
          · simp only [ht, ↓reduceIte] at hcore ⊢
            exact ⟨_, rfl, by simpa [hfix, hfr, hbs, hlast] using hcore⟩
          · simp only [ht, Bool.false_eq_true, ↓reduceIte] at hcore ⊢
            exact ⟨_, rfl, by simpa [hfix, hfr, hbs, hlast] using hcore⟩
      · have : (a.last != Part.body) = true := by simp [hlast]
        simp [this] at hs

theorem words_wr_outside (m : Mem) (i : Nat) (v : Int) (b e : Nat) (hi : HDR ≤ i) (hb : HDR ≤ b)
    (ho : i < b ∨ e ≤ i) : (m.wr i v).words b e = m.words b e := by
  unfold Mem.words Mem.wr
  simp only
  rcases ho with h | h
  · rw [List.take_set, List.drop_set_of_lt (by omega)]
  · rw [List.take_set_of_le (by omega)]

theorem rd_wr_same (m : Mem) (i : Nat) (v : Int) (hi : HDR ≤ i) (hlt : i < m.size) : (m.wr i v).rd i = v := by
  unfold Mem.rd Mem.wr Mem.size at *
  simp only
  have : i - HDR < m.data.length := by omega
  simp [List.getD, this]

theorem setBound_ref {c a a'} (h : R c a) (b : Int) (hs : a.setBound b = some a') :
    ∃ c', c.setBound b = some c' ∧ R c' a' := by
  unfold AR.setBound at hs
  unfold RB.setBound RB.boundPos
  cases hfr : a.frozen with
  | true => simp [hfr] at hs
  | false =>
    by_cases hbt : a.bt = 0
    · simp [hbt] at hs
    · have hb0 : (a.bt == 0) = false := by simp [hbt]
      simp only [hfr, hb0, Bool.or_self, Bool.false_eq_true, ↓reduceIte, Option.some.injEq] at hs
      subst hs
      have hbs : a.bStarted = true := by
        cases hbs : a.bStarted with
        | true => rfl
        | false => exact absurd (h.b_un hbs).2.2 hbt
      have hb' := h.b_st hbs
      have hfix : c.fix = false := h.fix.trans hfr
      have ht0 : (c.body.type == 0) = false := by rw [hb'.2.2.2.1]; exact hb0
      simp only [hfix, ht0, Bool.or_self, Bool.false_eq_true, ↓reduceIte]
      have htop := h.top_ge; have htl := h.top_le
      have hmb : HDR + 1 ≤ c.body.mbeg := by have := hb'.1; simpa [hbt] using this
      have hin : c.mem.inRange (c.body.mbeg - 1) = true := by
        unfold Mem.inRange; have := hb'.2.1; have := hb'.2.2.1; simp; omega
      refine ⟨_, rfl, ?_⟩
      refine ⟨by simp [Mem.wr, h.noviol, hin], by simp [hfix, hfr], htop, by simpa [Mem.wr, Mem.size] using htl,
        h.h_un, ?_, ?_, ?_, h.w1, h.last_h, h.last_b, h.last_n, h.min_sum⟩
      · intro hst
        have hh := h.h_st hst
        refine ⟨hh.1, hh.2.1, hh.2.2.1, hh.2.2.2.1, ?_⟩
        have hord : c.body.mbeg - 1 < c.head.mbeg ∨ c.head.mend ≤ c.body.mbeg - 1 := by
          cases hl : a.last with
          | none => have := (h.last_n hl).1; rw [hst] at this; cases this
          | head => left; have := (h.last_h hl).2.2 hbs; have := hb'.2.1; omega
          | body => right; have := (h.last_b hl).2.2 hst; simp [hbt] at this; omega
        exact (words_wr_outside c.mem (c.body.mbeg - 1) b c.head.mbeg c.head.mend (by omega) hh.1 hord).trans hh.2.2.2.2
      · intro hf; rw [hbs] at hf; cases hf
      · intro _
        refine ⟨hb'.1, hb'.2.1, hb'.2.2.1, hb'.2.2.2.1, ?_, ?_⟩
        · exact (words_wr_outside c.mem (c.body.mbeg - 1) b c.body.mbeg c.body.mend (by omega) (by omega) (Or.inl (by omega))).trans hb'.2.2.2.2.1
        · intro _
          exact rd_wr_same c.mem (c.body.mbeg - 1) b (by omega) (by have := hb'.2.1; have := hb'.2.2.1; omega)

theorem end_ref {c a} (h : R c a) : R c.end_ a.end_ :=
  ⟨h.noviol, rfl, h.top_ge, h.top_le, h.h_un, h.h_st, h.b_un, h.b_st, h.w1, h.last_h, h.last_b, h.last_n, h.min_sum⟩

theorem pairs_flatMap : ∀ (l : List (Int × Int)), pairs (l.flatMap (fun p => [p.1, p.2])) = l := by
  intro l
  induction l with
  | nil => rfl
  | cons p l ih => simp [pairs, ih]

/-- under the refinement relation the observable rule is the specification's rule, and reading it stays
    inside the block. -/
theorem view_ref {c a} (h : R c a) : c.view = a.view ∧ c.viewOk = true := by
  have htl := h.top_le
  have hht : c.head.type = a.ht ∧ c.mem.words c.head.mbeg c.head.mend = a.head ∧
      (c.head.len = 0 ∨ (HDR ≤ c.head.mbeg ∧ c.head.mend ≤ c.mem.size)) := by
    cases hst : a.hStarted with
    | false => have := h.h_un hst; rw [this.1, this.2.1, this.2.2]; simp [Mem.words, Span.len]
    | true => have := h.h_st hst; exact ⟨this.2.2.2.1, this.2.2.2.2, Or.inr ⟨this.1, by omega⟩⟩
  have hbd : c.body.type = a.bt ∧ c.mem.words c.body.mbeg c.body.mend = enc a.bt a.body ∧
      (c.body.len = 0 ∨ (HDR ≤ c.body.mbeg ∧ c.body.mend ≤ c.mem.size)) ∧
      (a.bt ≠ 0 → c.mem.rd (c.body.mbeg - 1) = a.bound ∧ HDR + 1 ≤ c.body.mbeg ∧ c.body.mbeg ≤ c.mem.size) := by
    cases hbs : a.bStarted with
    | false =>
      have := h.b_un hbs; rw [this.1, this.2.1, this.2.2]
      simp [Mem.words, Span.len, enc]
    | true =>
      have := h.b_st hbs
      refine ⟨this.2.2.2.1, this.2.2.2.2.1, Or.inr ⟨by omega, by omega⟩, ?_⟩
      intro hne
      have h1 := this.1; simp [hne] at h1
      exact ⟨this.2.2.2.2.2 hne, h1, by omega⟩
  have hsl : (c.head.type == 2 || c.body.type != 0) = (a.bt != 0) := by
    rw [hht.1, hbd.1]
    by_cases h2 : a.ht = 2
    · have := h.min_sum h2; simp [h2, this]
    · simp [h2]
  constructor
  · unfold RB.view AR.view RB.words RB.rd RB.boundPos
    simp only [hsl]
    by_cases hbt : a.bt = 0
    · have hw := h.w1 hbt
      simp only [hbt, bne_self_eq_false, Bool.false_eq_true, ↓reduceIte, beq_self_eq_true]
      rw [hht.1, hht.2.1, hbd.1, hbd.2.1, hbt]
      simp only [enc, ↓reduceIte, List.map_map]
      congr 1
      calc List.map ((fun l => (l, (1 : Int))) ∘ fun x => x.1) a.body = List.map id a.body := by
            apply List.map_congr_left
            intro p hp; simp [← hw p hp]
        _ = a.body := List.map_id _
    · have hb0 : (a.bt != 0) = true := by simp [hbt]
      have hb1 : (a.bt == 0) = false := by simp [hbt]
      simp only [hb0, ↓reduceIte, hb1, Bool.false_eq_true]
      rw [hht.1, hht.2.1, hbd.1, hbd.2.1, (hbd.2.2.2 hbt).1]
      simp only [enc, hbt, ↓reduceIte, pairs_flatMap]
  · unfold RB.viewOk RB.size
    simp only [hsl]
    have e1 : (c.head.len == 0 || (decide (HDR ≤ c.head.mbeg) && decide (c.head.mend ≤ c.mem.size))) = true := by
      rcases hht.2.2 with h0 | h1
      · simp [h0]
      · simp [h1.1, h1.2]
    have e2 : (c.body.len == 0 || (decide (HDR ≤ c.body.mbeg) && decide (c.body.mend ≤ c.mem.size))) = true := by
      rcases hbd.2.2.1 with h0 | h1
      · simp [h0]
      · simp [h1.1, h1.2]
    rw [e1, e2]
    by_cases hbt : a.bt = 0
    · simp [hbt]
    · have := hbd.2.2.2 hbt
      simp [this.2.1, this.2.2]

end PotasscoVerif.RuleBuilder
