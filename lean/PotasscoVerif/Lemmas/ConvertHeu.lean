/-
  Heuristic directives through the converter (potassco extensions on): every `#heuristic` directive of a step is queued with an atom that
  stands for its condition (`Rep`), and at the end of the step exactly one output directive `_heuristic(name,modifier,bias,priority)` on
  that atom is emitted for every queued directive whose target atom occurs in the program.
-/
import PotasscoVerif.Lemmas.ConvertStep
namespace PotasscoVerif.C02
open PotasscoVerif PotasscoVerif.Convert PotasscoVerif.Asp

/-- the heuristic directives among the calls: target, modifier, bias, priority, condition -/
def heuOf : Call → Option (Nat × Nat × Int × Nat × List Int)
  | .heuristic a t b p c => some (a, t, b, p, c)
  | _ => none
def heusOf (cs : List Call) : List (Nat × Nat × Int × Nat × List Int) := cs.filterMap heuOf
theorem heusOf_append (a b : List Call) : heusOf (a ++ b) = heusOf a ++ heusOf b := by simp [heusOf]

/-- the queue mirrors the directives given so far: same order, same fields, the queued atom stands for the condition -/
def HRel (c : CS) (defs : List (Nat × Body)) : List (Nat × Nat × Int × Nat × List Int) → List Heu → Prop
  | [], [] => True
  | h :: hs, e :: es => (e.atom = h.1 ∧ e.type = h.2.1 ∧ e.bias = h.2.2.1 ∧ e.prio = h.2.2.2.1 ∧ Rep c defs e.cond h.2.2.2.2) ∧ HRel c defs hs es
  | _, _ => False

theorem HRel.mono {c c' : CS} {defs defs' : List (Nat × Body)} (hs : Steps (abs c) (abs c')) (hi : Inv (abs c)) (hd : ∀ d ∈ defs, d ∈ defs') :
    ∀ (Hs : List (Nat × Nat × Int × Nat × List Int)) (es : List Heu), HRel c defs Hs es → HRel c' defs' Hs es := by
  intro Hs
  induction Hs with
  | nil => intro es h; cases es with | nil => trivial | cons _ _ => exact h
  | cons x r ih =>
    intro es h
    cases es with
    | nil => exact h
    | cons e t =>
      obtain ⟨⟨h1, h2, h3, h4, h5⟩, h6⟩ := h
      exact ⟨⟨h1, h2, h3, h4, h5.mono hs hi hd⟩, ih t h6⟩

theorem HRel.snoc {c : CS} {defs : List (Nat × Body)} (x : Nat × Nat × Int × Nat × List Int) (e : Heu)
    (hx : e.atom = x.1 ∧ e.type = x.2.1 ∧ e.bias = x.2.2.1 ∧ e.prio = x.2.2.2.1 ∧ Rep c defs e.cond x.2.2.2.2) :
    ∀ (Hs : List (Nat × Nat × Int × Nat × List Int)) (es : List Heu), HRel c defs Hs es → HRel c defs (Hs ++ [x]) (es ++ [e]) := by
  intro Hs
  induction Hs with
  | nil => intro es h; cases es with | nil => exact ⟨hx, trivial⟩ | cons _ _ => exact absurd h id
  | cons y r ih =>
    intro es h
    cases es with
    | nil => exact absurd h id
    | cons e' t => exact ⟨h.1, ih t h.2⟩

theorem HRel.mem {c : CS} {defs : List (Nat × Body)} : ∀ (Hs : List (Nat × Nat × Int × Nat × List Int)) (es : List Heu), HRel c defs Hs es →
    ∀ x ∈ Hs, ∃ e ∈ es, e.atom = x.1 ∧ e.type = x.2.1 ∧ e.bias = x.2.2.1 ∧ e.prio = x.2.2.2.1 ∧ Rep c defs e.cond x.2.2.2.2 := by
  intro Hs
  induction Hs with
  | nil => intro es _ x hx; cases hx
  | cons y r ih =>
    intro es h x hx
    cases es with
    | nil => exact absurd h id
    | cons e t =>
      simp only [List.mem_cons] at hx
      rcases hx with hx | hx
      · subst hx; exact ⟨e, by simp, h.1⟩
      · obtain ⟨e', he', hh⟩ := ih t h.2 x hx
        exact ⟨e', by simp [he'], hh⟩

/-- one call: the translation invariant and the queue relation together (under one list of definitions) -/
theorem apply_plainJH {c : CS} {P defs} {Hs : List (Nat × Nat × Int × Nat × List Int)} (hj : J c P defs) (hh : HRel c defs Hs c.heur) (x : Call) (hx : PlainOk x) :
    ∃ defs', J (c.apply x) (P ++ (rulesOf [x]).filter kept) defs' ∧ HRel (c.apply x) defs' (Hs ++ heusOf [x]) (c.apply x).heur := by
  have hst := apply_steps c x
  by_cases hn : isHeu x = false
  · -- the queue is untouched; the definitions only grow
    have hq := apply_plain_heur c hj.nofail x hx hn
    have e0 : heusOf [x] = [] := by cases x <;> first | rfl | cases hn
    rw [e0, List.append_nil, hq]
    have key : ∃ defs', J (c.apply x) (P ++ (rulesOf [x]).filter kept) defs' ∧ (∀ d ∈ defs, d ∈ defs') := by
      cases x with
      | rule ht head body => exact ⟨defs, apply_rule hj ht head body hx, fun d hd => hd⟩
      | sumRule ht head bound body => exact apply_sumRule hj ht head bound body hx
      | minimize prio lits =>
        have hany : lits.any (fun p => p.2 == I32MINc) = false := by
          rw [List.any_eq_false]; intro p hp; simpa using (hx p hp).2
        have e1 : (rulesOf [Call.minimize prio lits]).filter kept = [] := rfl
        rw [e1, List.append_nil]
        unfold CS.apply
        simp only [hj.nofail, Bool.false_eq_true, ↓reduceIte, hany]
        exact ⟨defs, hj.of (.refl _) (by simp [hj.nofail]) rfl rfl rfl, fun d hd => hd⟩
      | output str cond =>
        obtain ⟨defs', hJ, hsub, _⟩ := hj.makeAtom cond true hx
        have e1 : (rulesOf [Call.output str cond]).filter kept = [] := rfl
        rw [e1, List.append_nil, apply_output_eq c hj.nofail]
        exact ⟨defs', hJ.of' (by simp; exact .refl _) rfl rfl rfl, hsub⟩
      | acycEdge a b cond =>
        obtain ⟨defs', hJ, hsub, _⟩ := (hj.through (.acycEdge a b cond) rfl).makeAtom cond true hx
        have e1 : (rulesOf [Call.acycEdge a b cond]).filter kept = [] := rfl
        rw [e1, List.append_nil, apply_edge_eq c hj.nofail]
        exact ⟨defs', hJ.of' (by simp; exact .refl _) rfl rfl rfl, hsub⟩
      | external a v =>
        have e1 : (rulesOf [Call.external a v]).filter kept = [] := rfl
        rw [e1, List.append_nil]
        have hfr : (c.apply (.external a v)).fail = false ∧ (c.apply (.external a v)).aux = c.aux ∧ (c.apply (.external a v)).out = c.out := by
          have h := rest_mapAtom c a
          unfold CS.apply
          simp only [hj.nofail, Bool.false_eq_true, ↓reduceIte]
          split
          · refine ⟨?_, ?_, ?_⟩
            · show (c.mapAtom a).1.fail = false; exact (rest_fail h).trans hj.nofail
            · show (c.mapAtom a).1.aux = c.aux; exact rest_aux h
            · show (c.mapAtom a).1.out = c.out; exact rest_out h
          · exact ⟨(rest_fail h).trans hj.nofail, rest_aux h, rest_out h⟩
        exact ⟨defs, hj.of' hst (hfr.1.trans hj.nofail.symm) hfr.2.1 (by rw [hfr.2.2]), fun d hd => hd⟩
      | heuristic a t b p cond => cases hn
      | _ => exact absurd hx (by simp [PlainOk])
    obtain ⟨defs', hJ, hsub⟩ := key
    exact ⟨defs', hJ, HRel.mono hst hj.inv hsub _ _ hh⟩
  · cases x with
    | heuristic a t b p cond =>
      have e1 : (rulesOf [Call.heuristic a t b p cond]).filter kept = [] := rfl
      have e2 : heusOf [Call.heuristic a t b p cond] = [(a, t, b, p, cond)] := rfl
      rw [e1, e2, List.append_nil, apply_heu_eq c hj.nofail]
      have hj1 := hj.through (.heuristic a t b p cond) rfl
      obtain ⟨defs', hJ, hsub, hrep⟩ := hj1.makeAtom cond true hx
      have hs := makeAtom_steps (pass c (.heuristic a t b p cond)) cond true
      have hpa : abs (pass c (.heuristic a t b p cond)) = abs c := by unfold pass; split <;> rfl
      have hph : (pass c (.heuristic a t b p cond)).heur = c.heur := by unfold pass; split <;> rfl
      have hmh := makeAtom_heur (pass c (.heuristic a t b p cond)) cond true
      refine ⟨defs', hJ.of' (.refl _) rfl rfl rfl, ?_⟩
      show HRel _ defs' (Hs ++ [(a, t, b, p, cond)]) (((pass c (.heuristic a t b p cond)).makeAtom cond true).1.heur ++ [_])
      rw [hmh, hph]
      have hh1 : HRel ((pass c (.heuristic a t b p cond)).makeAtom cond true).1 defs' Hs c.heur :=
        HRel.mono (by rw [← hpa]; exact hs) hj.inv hsub _ _ hh
      have hh2 := HRel.snoc (c := ((pass c (.heuristic a t b p cond)).makeAtom cond true).1) (a, t, b, p, cond)
        { atom := a, type := t, bias := b, prio := p, cond := ((pass c (.heuristic a t b p cond)).makeAtom cond true).2 } ⟨rfl, rfl, rfl, rfl, hrep⟩ Hs c.heur hh1
      -- the relation does not look at the queue of the state itself
      refine @HRel.mono ((pass c (.heuristic a t b p cond)).makeAtom cond true).1 _ defs' defs' ?_ hJ.inv (fun d hd => hd) _ _ hh2
      exact .refl _
    | _ => simp [isHeu] at hn

/-! ### the names: every recorded name of an atom is among the pending symbols -/
def SymInv (c : CS) : Prop := ∀ p ∈ c.symTab, p ∈ c.output

theorem rest_symTab {c c' : CS} (h : rest c' = rest c) : c'.symTab = c.symTab := congrArg (·.2.2.2.2.2.2.1) h

theorem auxAtom_symTab (c : CS) (cond : List Int) : (c.auxAtom cond).1.symTab = c.symTab := by
  unfold CS.auxAtom CS.emit
  simp only
  exact (rest_symTab (rest_mapLits { c with next := c.next + 1, aux := c.aux ++ [c.next] } cond [])).trans rfl

theorem makeAtom_symTab (c : CS) (cond : List Int) (named : Bool) : (c.makeAtom cond named).1.symTab = c.symTab := by
  unfold CS.makeAtom
  split
  · simp only
    split
    · exact (auxAtom_symTab _ cond).trans (rest_symTab (rest_mapAtom c _))
    · show (c.mapAtom (cond.headD 0).natAbs).1.symTab = _
      exact rest_symTab (rest_mapAtom c _)
  · exact auxAtom_symTab c cond

theorem SymInv.of {c c' : CS} (h : SymInv c) (h1 : c'.symTab = c.symTab) (h2 : c'.output = c.output) : SymInv c' := by
  intro p hp; rw [h2]; exact h p (h1 ▸ hp)

theorem SymInv.addOutput {c : CS} (h : SymInv c) (atom : Nat) (name : List Nat) (hash : Bool) : SymInv (c.addOutput atom name hash) := by
  intro p hp
  simp only [CS.addOutput] at hp ⊢
  split at hp
  · simp only [List.mem_append, List.mem_singleton] at hp ⊢
    rcases hp with hp | hp
    · exact Or.inl (h p hp)
    · exact Or.inr hp
  · exact List.mem_append_left _ (h p hp)

theorem pass_symTab (c : CS) (x : Call) : (pass c x).symTab = c.symTab ∧ (pass c x).output = c.output := by
  unfold pass; split <;> exact ⟨rfl, rfl⟩

theorem SymInv.step {c : CS} (h : SymInv c) (hf : c.fail = false) (x : Call) (hx : PlainOk x) : SymInv (c.apply x) := by
  have rs : ∀ {c' : CS}, rest c' = rest c → SymInv c' := fun hr => h.of (rest_symTab hr) (rest_output hr)
  cases x with
  | rule ht head body =>
    rw [apply_rule_eq c hf]; split
    · exact (rs (c' := ((c.mapHead head).1.mapLits body []).1) (by simp)).of rfl rfl
    · exact h
  | sumRule ht head bound body =>
    rw [apply_sum_eq c hf]; split
    · split
      · exact (rs (c' := ((c.mapHead head).1.mapWLits body []).1) (by simp)).of rfl rfl
      · exact (rs (c' := ((c.mapHead head).1.mapWLits body []).1) (by simp)).of rfl rfl
    · exact h
  | minimize prio lits =>
    have hany : lits.any (fun p => p.2 == I32MINc) = false := by
      rw [List.any_eq_false]; intro p hp; simpa using (hx p hp).2
    unfold CS.apply
    simp only [hf, Bool.false_eq_true, ↓reduceIte, hany]
    exact h.of rfl rfl
  | output str cond =>
    rw [apply_output_eq c hf]
    exact (h.of (makeAtom_symTab c cond true) (makeAtom_frame c cond true).1).addOutput _ _ _
  | acycEdge a b cond =>
    rw [apply_edge_eq c hf]
    have hp := pass_symTab c (.acycEdge a b cond)
    exact ((h.of hp.1 hp.2).of (makeAtom_symTab _ cond true) (makeAtom_frame _ cond true).1).addOutput _ _ _
  | heuristic a t b p cond =>
    rw [apply_heu_eq c hf]
    have hp := pass_symTab c (.heuristic a t b p cond)
    exact ((h.of hp.1 hp.2).of (makeAtom_symTab _ cond true) (makeAtom_frame _ cond true).1).of rfl rfl
  | external a v =>
    rw [apply_external_eq c hf]; split
    · exact (rs (c' := (c.mapAtom a).1) (rest_mapAtom c a)).of rfl rfl
    · exact rs (rest_mapAtom c a)
  | _ => exact absurd hx (by simp [PlainOk])

theorem run_JHX {c : CS} {P defs} {Hs : List (Nat × Nat × Int × Nat × List Int)} {t : T} (hj : J c P defs) (hh : HRel c defs Hs c.heur) (hxi : XI c t) (hsy : SymInv c)
    (ds : List Call) (hx : ∀ d ∈ ds, PlainOk d) :
    ∃ defs', J (ds.foldl CS.apply c) (P ++ (rulesOf ds).filter kept) defs' ∧ HRel (ds.foldl CS.apply c) defs' (Hs ++ heusOf ds) (ds.foldl CS.apply c).heur ∧
      XI (ds.foldl CS.apply c) (t.run ds) ∧ SymInv (ds.foldl CS.apply c) := by
  induction ds generalizing c P defs Hs t with
  | nil => exact ⟨defs, by simpa [rulesOf] using hj, by simpa [heusOf] using hh, hxi, hsy⟩
  | cons d r ih =>
    obtain ⟨defs1, h1, q1⟩ := apply_plainJH hj hh d (hx d (by simp))
    have x1 := hxi.step hj.inv hj.nofail d (hx d (by simp))
    have s1 := hsy.step hj.nofail d (hx d (by simp))
    obtain ⟨defs2, h2, q2, x2, s2⟩ := ih h1 q1 x1 s1 (fun e he => hx e (by simp [he]))
    refine ⟨defs2, ?_, ?_, x2, s2⟩
    · have : rulesOf (d :: r) = rulesOf [d] ++ rulesOf r := by rw [← rulesOf_append]; rfl
      rw [this, List.filter_append, ← List.append_assoc]
      exact h2
    · have : heusOf (d :: r) = heusOf [d] ++ heusOf r := by rw [← heusOf_append]; rfl
      rw [this, ← List.append_assoc]
      exact q2

theorem JHX.pre (ext inc : Bool) (ds : List Call) (hx : ∀ d ∈ ds, PlainOk d) :
    ∃ defs, J (preEnd ext inc ds) ((rulesOf ds).filter kept) defs ∧ HRel (preEnd ext inc ds) defs (heusOf ds) (preEnd ext inc ds).heur ∧
      XI (preEnd ext inc ds) (({} : T).run ds) ∧ SymInv (preEnd ext inc ds) := by
  have a1 : J (CS.apply { ext := ext } (.initProgram inc)) [] [] := by
    rw [apply_init _ rfl]; exact (J.init ext).emit _ rfl
  have a2 : J ((CS.apply { ext := ext } (.initProgram inc)).apply .beginStep) [] [] := by
    rw [apply_begin _ a1.nofail]; exact a1.emit _ rfl
  have d2 : XI ((CS.apply { ext := ext } (.initProgram inc)).apply .beginStep) {} := by
    rw [apply_begin _ a1.nofail, apply_init _ rfl]; exact ((XI.init ext).emit _).emit _
  have q2 : HRel ((CS.apply { ext := ext } (.initProgram inc)).apply .beginStep) [] [] ((CS.apply { ext := ext } (.initProgram inc)).apply .beginStep).heur := by
    rw [apply_begin _ a1.nofail, apply_init _ rfl]; exact trivial
  have s2 : SymInv ((CS.apply { ext := ext } (.initProgram inc)).apply .beginStep) := by
    rw [apply_begin _ a1.nofail, apply_init _ rfl]; intro p hp; cases hp
  obtain ⟨defs, h1, q1, x1, y1⟩ := run_JHX a2 q2 d2 s2 ds hx
  simp only [List.nil_append] at h1 q1
  exact ⟨defs, h1, q1, x1, y1⟩

/-! ### what the heuristic flush emits -/
def heuOutName (nm : List Nat) (h : Heu) : List Nat :=
  Convert.s "_heuristic(" ++ nm ++ [44] ++ heuName h.type ++ [44] ++ AspifOut.printInt h.bias ++ [44] ++ AspifOut.printNat h.prio ++ [41]

theorem heuStep_out_mono (c : CS) (h : Heu) : ∀ x ∈ c.out, x ∈ (heuStep c h).out := by
  intro x hx
  unfold heuStep
  cases c.find h.atom with
  | none => exact hx
  | some ma =>
    simp only
    cases (if ma.shown = true then c.getName ma.smId else none) with
    | some n => simp only [CS.emit]; exact List.mem_append_left _ hx
    | none => simp only [CS.emit]; exact List.mem_append_left _ hx

theorem heuStep_out (c : CS) (h : Heu) (hm : h.atom ∈ domOf c) : ∃ nm, Call.output (heuOutName nm h) [(h.cond : Int)] ∈ (heuStep c h).out := by
  have hf := dom_find c h.atom hm
  unfold heuStep
  cases hfa : c.find h.atom with
  | none => rw [hfa] at hf; cases hf
  | some ma =>
    simp only
    cases (if ma.shown = true then c.getName ma.smId else none) with
    | some n => exact ⟨n, by simp [CS.emit, heuOutName]⟩
    | none => exact ⟨Convert.s "_atom(" ++ AspifOut.printNat ma.smId ++ [41], by simp [CS.emit, CS.addOutput, heuOutName]⟩

theorem heuStep_dom (c : CS) (h : Heu) : domOf (heuStep c h) = domOf c := by
  unfold domOf; rw [(heuStep_frame c h).1]

theorem heuFold_out : ∀ (es : List Heu) (c : CS),
    (∀ x ∈ c.out, x ∈ (es.foldl heuStep c).out) ∧ ∀ e ∈ es, e.atom ∈ domOf c → ∃ nm, Call.output (heuOutName nm e) [(e.cond : Int)] ∈ (es.foldl heuStep c).out := by
  intro es
  induction es with
  | nil => intro c; exact ⟨fun x hx => hx, fun e he => by cases he⟩
  | cons h r ih =>
    intro c
    obtain ⟨i1, i2⟩ := ih (heuStep c h)
    simp only [List.foldl_cons]
    refine ⟨fun x hx => i1 x (heuStep_out_mono c h x hx), ?_⟩
    intro e he hm
    simp only [List.mem_cons] at he
    rcases he with he | he
    · subst he
      obtain ⟨nm, hn⟩ := heuStep_out c e hm
      exact ⟨nm, i1 _ hn⟩
    · exact i2 e he (by rw [heuStep_dom]; exact hm)

theorem flushSymbols_out_mono (c : CS) : ∀ x ∈ c.out, x ∈ c.flushSymbols.out := by
  unfold CS.flushSymbols
  generalize sortSyms c.output = l
  induction l generalizing c with
  | nil => intro x hx; exact hx
  | cons p r ih =>
    intro x hx
    simp only [List.foldl_cons]
    exact ih (c.emit (.output p.2 [(p.1 : Int)])) x (by simp [CS.emit, hx])

/-- **the end of the step**: every queued heuristic whose target occurs in the program is emitted as one output directive on its condition atom -/
theorem flush_heu_outs (c : CS) (hf : c.fail = false) (hi : Inv (abs c)) (hfs : FlushShape c.flushMinimize) :
    ∀ e ∈ c.heur, e.atom ∈ domOf c → ∃ nm, Call.output (heuOutName nm e) [(e.cond : Int)] ∈ (c.apply .endStep).out := by
  intro e he hm
  rw [apply_end c hf]
  obtain ⟨_, _, _, f4⟩ := flushMinimize_frame c
  obtain ⟨rs, esh, _, _⟩ := hfs
  have hheur : c.flushMinimize.flushExternal.heur = c.heur := by rw [esh]; exact f4
  have hdom : e.atom ∈ domOf c.flushMinimize.flushExternal := by
    have h1 := dom_mono (flushMinimize_steps c) hi e.atom hm
    rw [esh]; exact h1
  obtain ⟨nm, hn⟩ := (heuFold_out c.flushMinimize.flushExternal.heur c.flushMinimize.flushExternal).2 e (hheur ▸ he) hdom
  rw [← flushHeuristic_eq] at hn
  refine ⟨nm, ?_⟩
  have h2 := flushSymbols_out_mono _ _ hn
  unfold CS.flush
  simp only [CS.emit]
  simp only [List.mem_append, List.mem_singleton]
  exact Or.inl (Or.inl h2)

/-! ### the name in the emitted heuristic symbol is a name the target's atom is shown under -/
theorem find_ids (c : CS) (a : Nat) (ma : CAtom) (h : c.find a = some ma) : (a, ma.smId) ∈ (abs c).ids := by
  unfold CS.find at h
  simp only [Option.map_eq_some_iff] at h
  obtain ⟨p, hp, e⟩ := h
  have hm := List.mem_of_find?_eq_some hp
  have hk := List.find?_some hp
  simp only [beq_iff_eq] at hk
  simp only [abs, List.mem_map]
  exact ⟨p, hm, by rw [← e, ← hk]⟩

theorem getName_mem (c : CS) (sm : Nat) (n : List Nat) (h : c.getName sm = some n) : (sm, n) ∈ c.symTab := by
  unfold CS.getName at h
  simp only [Option.map_eq_some_iff] at h
  obtain ⟨p, hp, e⟩ := h
  have hm := List.mem_of_find?_eq_some hp
  have hk := List.find?_some hp
  simp only [beq_iff_eq] at hk
  have : p = (sm, n) := by cases p; simp_all
  rw [← this]; exact hm

theorem heuStep_named (c : CS) (h : Heu) (hs : SymInv c) (hm : h.atom ∈ domOf c) :
    ∃ nm sm, (h.atom, sm) ∈ (abs c).ids ∧ Call.output (heuOutName nm h) [(h.cond : Int)] ∈ (heuStep c h).out ∧ (sm, nm) ∈ (heuStep c h).output := by
  have hf := dom_find c h.atom hm
  unfold heuStep
  cases hfa : c.find h.atom with
  | none => rw [hfa] at hf; cases hf
  | some ma =>
    have hid := find_ids c h.atom ma hfa
    simp only
    cases hn : (if ma.shown = true then c.getName ma.smId else none) with
    | some n =>
      have hg : c.getName ma.smId = some n := by
        by_cases hsw : ma.shown = true
        · simpa [hsw] using hn
        · simp [hsw] at hn
      exact ⟨n, ma.smId, hid, by simp [CS.emit, heuOutName], by simp only [CS.emit]; exact hs _ (getName_mem c _ _ hg)⟩
    | none =>
      exact ⟨Convert.s "_atom(" ++ AspifOut.printNat ma.smId ++ [41], ma.smId, hid, by simp [CS.emit, CS.addOutput, heuOutName], by simp [CS.emit, CS.addOutput]⟩

theorem heuStep_sym (c : CS) (h : Heu) (hs : SymInv c) : SymInv (heuStep c h) ∧ ∀ p ∈ c.output, p ∈ (heuStep c h).output := by
  unfold heuStep
  cases c.find h.atom with
  | none => exact ⟨hs, fun p hp => hp⟩
  | some ma =>
    simp only
    cases (if ma.shown = true then c.getName ma.smId else none) with
    | some n => exact ⟨hs.of rfl rfl, fun p hp => hp⟩
    | none =>
      refine ⟨((hs.of (c' := c.updAtom h.atom (fun x => { x with shown := true })) rfl rfl).addOutput _ _ _).of rfl rfl, ?_⟩
      intro p hp
      simp only [CS.emit, CS.addOutput]
      exact List.mem_append_left _ hp

theorem heuFold_named : ∀ (es : List Heu) (c : CS), SymInv c →
    (∀ p ∈ c.output, p ∈ (es.foldl heuStep c).output) ∧
    ∀ e ∈ es, e.atom ∈ domOf c → ∃ nm sm, (e.atom, sm) ∈ (abs c).ids ∧ Call.output (heuOutName nm e) [(e.cond : Int)] ∈ (es.foldl heuStep c).out ∧
      (sm, nm) ∈ (es.foldl heuStep c).output := by
  intro es
  induction es with
  | nil => intro c _; exact ⟨fun p hp => hp, fun e he => by cases he⟩
  | cons h r ih =>
    intro c hs
    obtain ⟨s1, m1⟩ := heuStep_sym c h hs
    obtain ⟨i1, i2⟩ := ih (heuStep c h) s1
    have io := (heuFold_out r (heuStep c h)).1
    simp only [List.foldl_cons]
    refine ⟨fun p hp => i1 p (m1 p hp), ?_⟩
    intro e he hm
    simp only [List.mem_cons] at he
    rcases he with he | he
    · subst he
      obtain ⟨nm, sm, hid, ho, hn⟩ := heuStep_named c e hs hm
      exact ⟨nm, sm, hid, io _ ho, i1 _ hn⟩
    · obtain ⟨nm, sm, hid, ho, hn⟩ := i2 e he (by rw [heuStep_dom]; exact hm)
      exact ⟨nm, sm, by rw [← (heuStep_frame c h).1]; exact hid, ho, hn⟩

theorem flushSymbols_emits (c : CS) : ∀ p ∈ c.output, Call.output p.2 [(p.1 : Int)] ∈ c.flushSymbols.out := by
  intro p hp
  have hp' : p ∈ sortSyms c.output := (mem_sortSyms p c.output).mpr hp
  unfold CS.flushSymbols
  generalize sortSyms c.output = l at hp'
  induction l generalizing c with
  | nil => cases hp'
  | cons q r ih =>
    simp only [List.foldl_cons]
    simp only [List.mem_cons] at hp'
    rcases hp' with h | h
    · subst h
      have hmono : ∀ (l : List (Nat × List Nat)) (c' : CS), ∀ x ∈ c'.out, x ∈ (l.foldl (fun c p => c.emit (.output p.2 [(p.1 : Int)])) c').out := by
        intro l
        induction l with
        | nil => intro c' x hx; exact hx
        | cons q' r' ih' => intro c' x hx; simp only [List.foldl_cons]; exact ih' _ x (by simp [CS.emit, hx])
      exact hmono r _ _ (by simp [CS.emit])
    · exact ih (c.emit (.output q.2 [(q.1 : Int)])) (by simpa [CS.emit] using hp) h

theorem flushMinimize_symTab (c : CS) : c.flushMinimize.symTab = c.symTab := by
  unfold CS.flushMinimize
  generalize c.minimize = ms
  induction ms generalizing c with
  | nil => rfl
  | cons pl r ih =>
    simp only [List.foldl_cons]
    rw [ih]
    show (c.mapWLits pl.2 []).1.symTab = c.symTab
    exact rest_symTab (by simp)

theorem heuFold_abs : ∀ (es : List Heu) (c : CS), abs (es.foldl heuStep c) = abs c := by
  intro es
  induction es with
  | nil => intro c; rfl
  | cons h r ih => intro c; simp only [List.foldl_cons]; rw [ih, (heuStep_frame c h).1]

theorem flushSymbols_abs (c : CS) : abs c.flushSymbols = abs c := by
  unfold CS.flushSymbols
  generalize sortSyms c.output = l
  induction l generalizing c with
  | nil => rfl
  | cons q r ih => simp only [List.foldl_cons]; rw [ih]; rfl

/-- the end of the step, with the name: the emitted heuristic symbol carries a name under which the emitted program shows the target's atom -/
theorem flush_heu_named (c : CS) (hf : c.fail = false) (hi : Inv (abs c)) (hsy : SymInv c) (hfs : FlushShape c.flushMinimize) :
    ∀ e ∈ c.heur, e.atom ∈ domOf c → ∃ nm sm, (e.atom, sm) ∈ (abs (c.apply .endStep)).ids ∧
      Call.output (heuOutName nm e) [(e.cond : Int)] ∈ (c.apply .endStep).out ∧ Call.output nm [(sm : Int)] ∈ (c.apply .endStep).out := by
  intro e he hm
  have hsteps := apply_steps c .endStep
  rw [apply_end c hf] at hsteps ⊢
  obtain ⟨g1, _, _, f4⟩ := flushMinimize_frame c
  obtain ⟨rs, esh, _, _⟩ := hfs
  have hheur : c.flushMinimize.flushExternal.heur = c.heur := by rw [esh]; exact f4
  have hdom : e.atom ∈ domOf c.flushMinimize.flushExternal := by
    have h1 := dom_mono (flushMinimize_steps c) hi e.atom hm
    rw [esh]; exact h1
  have hsy2 : SymInv c.flushMinimize.flushExternal := by
    rw [esh]
    intro p hp
    show p ∈ c.flushMinimize.output
    rw [g1]
    exact hsy p (flushMinimize_symTab c ▸ hp)
  obtain ⟨nm, sm, hid, ho, hn⟩ := (heuFold_named c.flushMinimize.flushExternal.heur c.flushMinimize.flushExternal hsy2).2 e (hheur ▸ he) hdom
  rw [← flushHeuristic_eq] at ho hn
  refine ⟨nm, sm, ?_, ?_, ?_⟩
  · have habs : abs (c.flush.emit .endStep) = abs c.flushMinimize.flushExternal := by
      show abs c.flushMinimize.flushExternal.flushHeuristic.flushSymbols = _
      rw [flushSymbols_abs, flushHeuristic_eq, heuFold_abs]
    rw [habs]; exact hid
  · have h2 := flushSymbols_out_mono _ _ ho
    unfold CS.flush
    simp only [CS.emit, List.mem_append, List.mem_singleton]
    exact Or.inl (Or.inl h2)
  · have h2 := flushSymbols_emits _ _ hn
    unfold CS.flush
    simp only [CS.emit, List.mem_append, List.mem_singleton]
    exact Or.inl (Or.inl h2)

end PotasscoVerif.C02
