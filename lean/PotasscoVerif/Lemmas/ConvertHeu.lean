/-
  Heuristic directives through the converter (potassco extensions on): every `#heuristic` directive of a step is queued with an atom that
  stands for its condition (`Rep`), and at the end of the step exactly one output directive `_heuristic(name,modifier,bias,priority)` on
  that atom is emitted for every queued directive whose target atom occurs in the program.
-/
import PotasscoVerif.Lemmas.ConvertStep
namespace PotasscoVerif.C02
open PotasscoVerif PotasscoVerif.Convert PotasscoVerif.Asp

/-- the heuristic directives among the calls: target, modifier, bias, priority, condition -/
def heuOf : Call → Option (Nat × Nat × Int × Nat × List Int)
  | .heuristic a t b p c => some (a, t, b, p, c)
  | _ => none
def heusOf (cs : List Call) : List (Nat × Nat × Int × Nat × List Int) := cs.filterMap heuOf
theorem heusOf_append (a b : List Call) : heusOf (a ++ b) = heusOf a ++ heusOf b := by simp [heusOf]

/-- the queue mirrors the directives given so far: same order, same fields, the queued atom stands for the condition -/
def HRel (c : CS) (defs : List (Nat × Body)) : List (Nat × Nat × Int × Nat × List Int) → List Heu → Prop
  | [], [] => True
  | h :: hs, e :: es => (e.atom = h.1 ∧ e.type = h.2.1 ∧ e.bias = h.2.2.1 ∧ e.prio = h.2.2.2.1 ∧ Rep c defs e.cond h.2.2.2.2) ∧ HRel c defs hs es
  | _, _ => False

theorem HRel.mono {c c' : CS} {defs defs' : List (Nat × Body)} (hs : Steps (abs c) (abs c')) (hi : Inv (abs c)) (hd : ∀ d ∈ defs, d ∈ defs') :
    ∀ (Hs : List (Nat × Nat × Int × Nat × List Int)) (es : List Heu), HRel c defs Hs es → HRel c' defs' Hs es := by
  intro Hs
  induction Hs with
  | nil => intro es h; cases es with | nil => trivial | cons _ _ => exact h
  | cons x r ih =>
    intro es h
    cases es with
    | nil => exact h
    | cons e t =>
      obtain ⟨⟨h1, h2, h3, h4, h5⟩, h6⟩ := h
      exact ⟨⟨h1, h2, h3, h4, h5.mono hs hi hd⟩, ih t h6⟩

theorem HRel.snoc {c : CS} {defs : List (Nat × Body)} (x : Nat × Nat × Int × Nat × List Int) (e : Heu)
    (hx : e.atom = x.1 ∧ e.type = x.2.1 ∧ e.bias = x.2.2.1 ∧ e.prio = x.2.2.2.1 ∧ Rep c defs e.cond x.2.2.2.2) :
    ∀ (Hs : List (Nat × Nat × Int × Nat × List Int)) (es : List Heu), HRel c defs Hs es → HRel c defs (Hs ++ [x]) (es ++ [e]) := by
  intro Hs
  induction Hs with
  | nil => intro es h; cases es with | nil => exact ⟨hx, trivial⟩ | cons _ _ => exact absurd h id
  | cons y r ih =>
    intro es h
    cases es with
    | nil => exact absurd h id
    | cons e' t => exact ⟨h.1, ih t h.2⟩

theorem HRel.mem {c : CS} {defs : List (Nat × Body)} : ∀ (Hs : List (Nat × Nat × Int × Nat × List Int)) (es : List Heu), HRel c defs Hs es →
    ∀ x ∈ Hs, ∃ e ∈ es, e.atom = x.1 ∧ e.type = x.2.1 ∧ e.bias = x.2.2.1 ∧ e.prio = x.2.2.2.1 ∧ Rep c defs e.cond x.2.2.2.2 := by
  intro Hs
  induction Hs with
  | nil => intro es _ x hx; cases hx
  | cons y r ih =>
    intro es h x hx
    cases es with
    | nil => exact absurd h id
    | cons e t =>
      simp only [List.mem_cons] at hx
      rcases hx with hx | hx
      · subst hx; exact ⟨e, by simp, h.1⟩
      · obtain ⟨e', he', hh⟩ := ih t h.2 x hx
        exact ⟨e', by simp [he'], hh⟩

/-- one call: the translation invariant and the queue relation together (under one list of definitions) -/
theorem apply_plainJH {c : CS} {P defs} {Hs : List (Nat × Nat × Int × Nat × List Int)} (hj : J c P defs) (hh : HRel c defs Hs c.heur) (x : Call) (hx : PlainOk x) :
    ∃ defs', J (c.apply x) (P ++ (rulesOf [x]).filter kept) defs' ∧ HRel (c.apply x) defs' (Hs ++ heusOf [x]) (c.apply x).heur := by
  have hst := apply_steps c x
  by_cases hn : isHeu x = false
  · -- the queue is untouched; the definitions only grow
    have hq := apply_plain_heur c hj.nofail x hx hn
    have e0 : heusOf [x] = [] := by cases x <;> first | rfl | cases hn
    rw [e0, List.append_nil, hq]
    have key : ∃ defs', J (c.apply x) (P ++ (rulesOf [x]).filter kept) defs' ∧ (∀ d ∈ defs, d ∈ defs') := by
      cases x with
      | rule ht head body => exact ⟨defs, apply_rule hj ht head body hx, fun d hd => hd⟩
      | sumRule ht head bound body => exact apply_sumRule hj ht head bound body hx
      | minimize prio lits =>
        have hany : lits.any (fun p => p.2 == I32MINc) = false := by
          rw [List.any_eq_false]; intro p hp; simpa using (hx p hp).2
        have e1 : (rulesOf [Call.minimize prio lits]).filter kept = [] := rfl
        rw [e1, List.append_nil]
        unfold CS.apply
        simp only [hj.nofail, Bool.false_eq_true, ↓reduceIte, hany]
        exact ⟨defs, hj.of (.refl _) (by simp [hj.nofail]) rfl rfl rfl, fun d hd => hd⟩
      | output str cond =>
        obtain ⟨defs', hJ, hsub, _⟩ := hj.makeAtom cond true hx
        have e1 : (rulesOf [Call.output str cond]).filter kept = [] := rfl
        rw [e1, List.append_nil, apply_output_eq c hj.nofail]
        exact ⟨defs', hJ.of' (by simp; exact .refl _) rfl rfl rfl, hsub⟩
      | acycEdge a b cond =>
        obtain ⟨defs', hJ, hsub, _⟩ := (hj.through (.acycEdge a b cond) rfl).makeAtom cond true hx
        have e1 : (rulesOf [Call.acycEdge a b cond]).filter kept = [] := rfl
        rw [e1, List.append_nil, apply_edge_eq c hj.nofail]
        exact ⟨defs', hJ.of' (by simp; exact .refl _) rfl rfl rfl, hsub⟩
      | external a v =>
        have e1 : (rulesOf [Call.external a v]).filter kept = [] := rfl
        rw [e1, List.append_nil]
        have hfr : (c.apply (.external a v)).fail = false ∧ (c.apply (.external a v)).aux = c.aux ∧ (c.apply (.external a v)).out = c.out := by
          have h := rest_mapAtom c a
          unfold CS.apply
          simp only [hj.nofail, Bool.false_eq_true, ↓reduceIte]
          split
          · refine ⟨?_, ?_, ?_⟩
            · show (c.mapAtom a).1.fail = false; exact (rest_fail h).trans hj.nofail
            · show (c.mapAtom a).1.aux = c.aux; exact rest_aux h
            · show (c.mapAtom a).1.out = c.out; exact rest_out h
          · exact ⟨(rest_fail h).trans hj.nofail, rest_aux h, rest_out h⟩
        exact ⟨defs, hj.of' hst (hfr.1.trans hj.nofail.symm) hfr.2.1 (by rw [hfr.2.2]), fun d hd => hd⟩
      | heuristic a t b p cond => cases hn
      | _ => exact absurd hx (by simp [PlainOk])
    obtain ⟨defs', hJ, hsub⟩ := key
    exact ⟨defs', hJ, HRel.mono hst hj.inv hsub _ _ hh⟩
  · cases x with
    | heuristic a t b p cond =>
      have e1 : (rulesOf [Call.heuristic a t b p cond]).filter kept = [] := rfl
      have e2 : heusOf [Call.heuristic a t b p cond] = [(a, t, b, p, cond)] := rfl
      rw [e1, e2, List.append_nil, apply_heu_eq c hj.nofail]
      have hj1 := hj.through (.heuristic a t b p cond) rfl
      obtain ⟨defs', hJ, hsub, hrep⟩ := hj1.makeAtom cond true hx
      have hs := makeAtom_steps (pass c (.heuristic a t b p cond)) cond true
      have hpa : abs (pass c (.heuristic a t b p cond)) = abs c := by unfold pass; split <;> rfl
      have hph : (pass c (.heuristic a t b p cond)).heur = c.heur := by unfold pass; split <;> rfl
      have hmh := makeAtom_heur (pass c (.heuristic a t b p cond)) cond true
      refine ⟨defs', hJ.of' (.refl _) rfl rfl rfl, ?_⟩
      show HRel _ defs' (Hs ++ [(a, t, b, p, cond)]) (((pass c (.heuristic a t b p cond)).makeAtom cond true).1.heur ++ [_])
      rw [hmh, hph]
      have hh1 : HRel ((pass c (.heuristic a t b p cond)).makeAtom cond true).1 defs' Hs c.heur :=
        HRel.mono (by rw [← hpa]; exact hs) hj.inv hsub _ _ hh
      have hh2 := HRel.snoc (c := ((pass c (.heuristic a t b p cond)).makeAtom cond true).1) (a, t, b, p, cond)
        { atom := a, type := t, bias := b, prio := p, cond := ((pass c (.heuristic a t b p cond)).makeAtom cond true).2 } ⟨rfl, rfl, rfl, rfl, hrep⟩ Hs c.heur hh1
      -- the relation does not look at the queue of the state itself
      refine @HRel.mono ((pass c (.heuristic a t b p cond)).makeAtom cond true).1 _ defs' defs' ?_ hJ.inv (fun d hd => hd) _ _ hh2
      exact .refl _
    | _ => simp [isHeu] at hn

theorem run_JHX {c : CS} {P defs} {Hs : List (Nat × Nat × Int × Nat × List Int)} {t : T} (hj : J c P defs) (hh : HRel c defs Hs c.heur) (hxi : XI c t)
    (ds : List Call) (hx : ∀ d ∈ ds, PlainOk d) :
    ∃ defs', J (ds.foldl CS.apply c) (P ++ (rulesOf ds).filter kept) defs' ∧ HRel (ds.foldl CS.apply c) defs' (Hs ++ heusOf ds) (ds.foldl CS.apply c).heur ∧
      XI (ds.foldl CS.apply c) (t.run ds) := by
  induction ds generalizing c P defs Hs t with
  | nil => exact ⟨defs, by simpa [rulesOf] using hj, by simpa [heusOf] using hh, hxi⟩
  | cons d r ih =>
    obtain ⟨defs1, h1, q1⟩ := apply_plainJH hj hh d (hx d (by simp))
    have x1 := hxi.step hj.inv hj.nofail d (hx d (by simp))
    obtain ⟨defs2, h2, q2, x2⟩ := ih h1 q1 x1 (fun e he => hx e (by simp [he]))
    refine ⟨defs2, ?_, ?_, x2⟩
    · have : rulesOf (d :: r) = rulesOf [d] ++ rulesOf r := by rw [← rulesOf_append]; rfl
      rw [this, List.filter_append, ← List.append_assoc]
      exact h2
    · have : heusOf (d :: r) = heusOf [d] ++ heusOf r := by rw [← heusOf_append]; rfl
      rw [this, ← List.append_assoc]
      exact q2

theorem JHX.pre (ext inc : Bool) (ds : List Call) (hx : ∀ d ∈ ds, PlainOk d) :
    ∃ defs, J (preEnd ext inc ds) ((rulesOf ds).filter kept) defs ∧ HRel (preEnd ext inc ds) defs (heusOf ds) (preEnd ext inc ds).heur ∧
      XI (preEnd ext inc ds) (({} : T).run ds) := by
  have a1 : J (CS.apply { ext := ext } (.initProgram inc)) [] [] := by
    rw [apply_init _ rfl]; exact (J.init ext).emit _ rfl
  have a2 : J ((CS.apply { ext := ext } (.initProgram inc)).apply .beginStep) [] [] := by
    rw [apply_begin _ a1.nofail]; exact a1.emit _ rfl
  have d2 : XI ((CS.apply { ext := ext } (.initProgram inc)).apply .beginStep) {} := by
    rw [apply_begin _ a1.nofail, apply_init _ rfl]; exact ((XI.init ext).emit _).emit _
  have q2 : HRel ((CS.apply { ext := ext } (.initProgram inc)).apply .beginStep) [] [] ((CS.apply { ext := ext } (.initProgram inc)).apply .beginStep).heur := by
    rw [apply_begin _ a1.nofail, apply_init _ rfl]; exact trivial
  obtain ⟨defs, h1, q1, x1⟩ := run_JHX a2 q2 d2 ds hx
  simp only [List.nil_append] at h1 q1
  exact ⟨defs, h1, q1, x1⟩

/-! ### what the heuristic flush emits -/
def heuOutName (nm : List Nat) (h : Heu) : List Nat :=
  Convert.s "_heuristic(" ++ nm ++ [44] ++ heuName h.type ++ [44] ++ AspifOut.printInt h.bias ++ [44] ++ AspifOut.printNat h.prio ++ [41]

theorem heuStep_out_mono (c : CS) (h : Heu) : ∀ x ∈ c.out, x ∈ (heuStep c h).out := by
  intro x hx
  unfold heuStep
  cases c.find h.atom with
  | none => exact hx
  | some ma =>
    simp only
    cases (if ma.shown = true then c.getName ma.smId else none) with
    | some n => simp only [CS.emit]; exact List.mem_append_left _ hx
    | none => simp only [CS.emit]; exact List.mem_append_left _ hx

theorem heuStep_out (c : CS) (h : Heu) (hm : h.atom ∈ domOf c) : ∃ nm, Call.output (heuOutName nm h) [(h.cond : Int)] ∈ (heuStep c h).out := by
  have hf := dom_find c h.atom hm
  unfold heuStep
  cases hfa : c.find h.atom with
  | none => rw [hfa] at hf; cases hf
  | some ma =>
    simp only
    cases (if ma.shown = true then c.getName ma.smId else none) with
    | some n => exact ⟨n, by simp [CS.emit, heuOutName]⟩
    | none => exact ⟨Convert.s "_atom(" ++ AspifOut.printNat ma.smId ++ [41], by simp [CS.emit, CS.addOutput, heuOutName]⟩

theorem heuStep_dom (c : CS) (h : Heu) : domOf (heuStep c h) = domOf c := by
  unfold domOf; rw [(heuStep_frame c h).1]

theorem heuFold_out : ∀ (es : List Heu) (c : CS),
    (∀ x ∈ c.out, x ∈ (es.foldl heuStep c).out) ∧ ∀ e ∈ es, e.atom ∈ domOf c → ∃ nm, Call.output (heuOutName nm e) [(e.cond : Int)] ∈ (es.foldl heuStep c).out := by
  intro es
  induction es with
  | nil => intro c; exact ⟨fun x hx => hx, fun e he => by cases he⟩
  | cons h r ih =>
    intro c
    obtain ⟨i1, i2⟩ := ih (heuStep c h)
    simp only [List.foldl_cons]
    refine ⟨fun x hx => i1 x (heuStep_out_mono c h x hx), ?_⟩
    intro e he hm
    simp only [List.mem_cons] at he
    rcases he with he | he
    · subst he
      obtain ⟨nm, hn⟩ := heuStep_out c e hm
      exact ⟨nm, i1 _ hn⟩
    · exact i2 e he (by rw [heuStep_dom]; exact hm)

theorem flushSymbols_out_mono (c : CS) : ∀ x ∈ c.out, x ∈ c.flushSymbols.out := by
  unfold CS.flushSymbols
  generalize sortSyms c.output = l
  induction l generalizing c with
  | nil => intro x hx; exact hx
  | cons p r ih =>
    intro x hx
    simp only [List.foldl_cons]
    exact ih (c.emit (.output p.2 [(p.1 : Int)])) x (by simp [CS.emit, hx])

/-- **the end of the step**: every queued heuristic whose target occurs in the program is emitted as one output directive on its condition atom -/
theorem flush_heu_outs (c : CS) (hf : c.fail = false) (hi : Inv (abs c)) (hfs : FlushShape c.flushMinimize) :
    ∀ e ∈ c.heur, e.atom ∈ domOf c → ∃ nm, Call.output (heuOutName nm e) [(e.cond : Int)] ∈ (c.apply .endStep).out := by
  intro e he hm
  rw [apply_end c hf]
  obtain ⟨_, _, _, f4⟩ := flushMinimize_frame c
  obtain ⟨rs, esh, _, _⟩ := hfs
  have hheur : c.flushMinimize.flushExternal.heur = c.heur := by rw [esh]; exact f4
  have hdom : e.atom ∈ domOf c.flushMinimize.flushExternal := by
    have h1 := dom_mono (flushMinimize_steps c) hi e.atom hm
    rw [esh]; exact h1
  obtain ⟨nm, hn⟩ := (heuFold_out c.flushMinimize.flushExternal.heur c.flushMinimize.flushExternal).2 e (hheur ▸ he) hdom
  rw [← flushHeuristic_eq] at hn
  refine ⟨nm, ?_⟩
  have h2 := flushSymbols_out_mono _ _ hn
  unfold CS.flush
  simp only [CS.emit]
  simp only [List.mem_append, List.mem_singleton]
  exact Or.inl (Or.inl h2)

end PotasscoVerif.C02
