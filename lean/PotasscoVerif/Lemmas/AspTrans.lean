/-
  The program transformation behind `SmodelsConvert`, stated abstractly and proved correct against Spec/Asp.lean:
  rename the atoms by an injection, give an integrity constraint the false atom as head, and route a body through a
  fresh auxiliary atom (`aux :- B.  H :- aux.`) — also for conditions that only need a name.
  `translation_stable` / `translation_stable_back`: the stable models of the two programs correspond one to one.
-/
import PotasscoVerif.Lemmas.AspBasic
namespace PotasscoVerif.Asp
set_option linter.unusedSectionVars false

def renLit (m : Nat → Nat) (l : Int) : Int := if l < 0 then -(m l.natAbs : Int) else (m l.natAbs : Int)

def renBody (m : Nat → Nat) : Body → Body
  | .normal ls => .normal (ls.map (renLit m))
  | .sum b wl => .sum b (wl.map (fun p => (renLit m p.1, p.2)))

/-- an empty head becomes the false atom `1` -/
def renHead (m : Nat → Nat) (h : List Nat) : List Nat := if h.isEmpty then [1] else h.map m

structure Ctx where
  dom  : List Nat                -- the mapped input atoms
  m    : Nat → Nat               -- their images
  defs : List (Nat × Body)       -- auxiliary atom ↦ the (input) body that defines it

structure Ctx.Ok (c : Ctx) : Prop where
  inj      : ∀ a ∈ c.dom, ∀ b ∈ c.dom, c.m a = c.m b → a = b
  img2     : ∀ a ∈ c.dom, 2 ≤ c.m a
  imgNoAux : ∀ a ∈ c.dom, ∀ d ∈ c.defs, d.1 ≠ c.m a
  aux2     : ∀ d ∈ c.defs, 2 ≤ d.1
  auxFun   : ∀ d ∈ c.defs, ∀ d' ∈ c.defs, d.1 = d'.1 → d.2 = d'.2
  defAtoms : ∀ d ∈ c.defs, ∀ a ∈ d.2.atoms, a ∈ c.dom
  defOk    : ∀ d ∈ c.defs, d.2.Ok

def renRule (m : Nat → Nat) (r : Rule) : Rule := ⟨r.choice, renHead m r.head, renBody m r.body⟩
def useRule (m : Nat → Nat) (r : Rule) (n : Nat) : Rule := ⟨r.choice, renHead m r.head, .normal [(n : Int)]⟩
def defRule (m : Nat → Nat) (d : Nat × Body) : Rule := ⟨false, [d.1], renBody m d.2⟩

/-- `P'` is a translation of `P`: every rule is renamed, or dropped when it is a choice over nothing, or split through
    the auxiliary atom that stands for its body; every auxiliary atom has its defining rule; nothing else is there. -/
structure Trans (c : Ctx) (P P' : List Rule) : Prop where
  inOk : ∀ r ∈ P, (∀ a ∈ r.head, a ∈ c.dom) ∧ (∀ a ∈ r.body.atoms, a ∈ c.dom) ∧ r.body.Ok
  s1 : ∀ r' ∈ P', (∃ r ∈ P, r' = renRule c.m r) ∨ (∃ d ∈ c.defs, r' = defRule c.m d) ∨
        (∃ r ∈ P, ∃ n, (n, r.body) ∈ c.defs ∧ r' = useRule c.m r n)
  s2 : ∀ r ∈ P, (r.choice = true ∧ r.head = []) ∨ renRule c.m r ∈ P' ∨ ∃ n, (n, r.body) ∈ c.defs ∧ useRule c.m r n ∈ P'
  s3 : ∀ d ∈ c.defs, defRule c.m d ∈ P'

/-- the input interpretation seen through the map -/
def Ctx.R (c : Ctx) (X' : I) : I := fun a => c.dom.contains a && X' (c.m a)

/-- the output interpretation that belongs to the reduct pair `(X, Y)`: images carry the value of their atom,
    an auxiliary atom the value of its body -/
def Ctx.E (c : Ctx) (X Y : I) : I := fun n =>
  match c.dom.find? (fun a => c.m a == n) with
  | some a => Y a
  | none =>
    match c.defs.find? (fun d => d.1 == n) with
    | some d => bodyR X Y d.2
    | none => false

section
variable {c : Ctx} (ok : c.Ok)
include ok

theorem E_img (X Y : I) (a : Nat) (ha : a ∈ c.dom) : c.E X Y (c.m a) = Y a := by
  unfold Ctx.E
  cases h : c.dom.find? (fun b => c.m b == c.m a) with
  | none =>
    have := List.find?_eq_none.mp h a ha
    simp at this
  | some b =>
    have hb := List.mem_of_find?_eq_some h
    have he := List.find?_some h
    simp only [beq_iff_eq] at he
    rw [ok.inj b hb a ha he]

theorem E_aux (X Y : I) (d : Nat × Body) (hd : d ∈ c.defs) : c.E X Y d.1 = bodyR X Y d.2 := by
  unfold Ctx.E
  cases h : c.dom.find? (fun b => c.m b == d.1) with
  | some b =>
    have hb := List.mem_of_find?_eq_some h
    have he := List.find?_some h
    simp only [beq_iff_eq] at he
    exact absurd he.symm (ok.imgNoAux b hb d hd)
  | none =>
    simp only
    cases h2 : c.defs.find? (fun e => e.1 == d.1) with
    | none =>
      have := List.find?_eq_none.mp h2 d hd
      simp at this
    | some e =>
      have he := List.mem_of_find?_eq_some h2
      have hk := List.find?_some h2
      simp only [beq_iff_eq] at hk
      simp only
      rw [ok.auxFun e he d hd hk]

theorem E_other (X Y : I) (n : Nat) (h1 : ∀ a ∈ c.dom, c.m a ≠ n) (h2 : ∀ d ∈ c.defs, d.1 ≠ n) : c.E X Y n = false := by
  unfold Ctx.E
  cases h : c.dom.find? (fun b => c.m b == n) with
  | some b =>
    have hb := List.mem_of_find?_eq_some h
    have he := List.find?_some h
    simp only [beq_iff_eq] at he
    exact absurd he (h1 b hb)
  | none =>
    simp only
    cases h3 : c.defs.find? (fun e => e.1 == n) with
    | none => rfl
    | some e =>
      have he := List.mem_of_find?_eq_some h3
      have hk := List.find?_some h3
      simp only [beq_iff_eq] at hk
      exact absurd hk (h2 e he)

theorem E_one (X Y : I) : c.E X Y 1 = false := by
  apply E_other ok
  · intro a ha e; have := ok.img2 a ha; omega
  · intro d hd e; have := ok.aux2 d hd; omega

theorem R_E (X Y : I) (a : Nat) (ha : a ∈ c.dom) : c.R (c.E X Y) a = Y a := by
  unfold Ctx.R
  rw [E_img ok X Y a ha]
  simp [ha]

/-- monotone in the candidate -/
theorem E_mono (X : I) {Y Y2 : I} (h : Sub Y Y2) : Sub (c.E X Y) (c.E X Y2) := by
  intro n
  by_cases h1 : ∃ a ∈ c.dom, c.m a = n
  · obtain ⟨a, ha, rfl⟩ := h1
    rw [E_img ok X Y a ha, E_img ok X Y2 a ha]; exact h a
  · by_cases h2 : ∃ d ∈ c.defs, d.1 = n
    · obtain ⟨d, hd, rfl⟩ := h2
      rw [E_aux ok X Y d hd, E_aux ok X Y2 d hd]
      exact bodyR_mono X h d.2 (ok.defOk d hd)
    · rw [E_other ok X Y n (fun a ha e => h1 ⟨a, ha, e⟩) (fun d hd e => h2 ⟨d, hd, e⟩)]
      intro hf; exact absurd hf (by simp)

/-! ### renaming of literals, bodies and heads -/
theorem litR_ren (X' Y' : I) (l : Int) (hl : l ≠ 0) (hd : l.natAbs ∈ c.dom) :
    litR X' Y' (renLit c.m l) = litR (c.R X') (c.R Y') l := by
  have h2 := ok.img2 _ hd
  unfold litR renLit Ctx.R
  by_cases hneg : l < 0
  · have e1 : ¬ (0 : Int) < -(c.m l.natAbs : Int) := by omega
    have e2 : ¬ (0 : Int) < l := by omega
    simp only [hneg, ↓reduceIte, e1, e2, Int.natAbs_neg, Int.natAbs_natCast]
    simp [hd]
  · have e1 : (0 : Int) < (c.m l.natAbs : Int) := by omega
    have e2 : (0 : Int) < l := by omega
    simp only [hneg, ↓reduceIte, e1, e2, Int.natAbs_natCast]
    simp [hd]

theorem wsum_ren (X' Y' : I) (wl : List (Int × Int)) (h : ∀ p ∈ wl, p.1 ≠ 0 ∧ p.1.natAbs ∈ c.dom) :
    wsum X' Y' (wl.map (fun p => (renLit c.m p.1, p.2))) = wsum (c.R X') (c.R Y') wl := by
  induction wl with
  | nil => rfl
  | cons p r ih =>
    rw [List.map_cons, wsum_cons, wsum_cons, ih (fun q hq => h q (by simp [hq]))]
    simp only
    rw [litR_ren ok X' Y' p.1 (h p (by simp)).1 (h p (by simp)).2]

theorem bodyR_ren (X' Y' : I) (B : Body) (hok : B.Ok) (hd : ∀ a ∈ B.atoms, a ∈ c.dom) :
    bodyR X' Y' (renBody c.m B) = bodyR (c.R X') (c.R Y') B := by
  cases B with
  | normal ls =>
    simp only [renBody, bodyR]
    rw [Bool.eq_iff_iff]
    simp only [List.all_eq_true, List.mem_map]
    have e : ∀ l ∈ ls, litR X' Y' (renLit c.m l) = litR (c.R X') (c.R Y') l := fun l hl =>
      litR_ren ok X' Y' l (hok l hl) (hd _ (by simp only [Body.atoms, List.mem_map]; exact ⟨l, hl, rfl⟩))
    constructor
    · intro hh l hl; rw [← e l hl]; exact hh _ ⟨l, hl, rfl⟩
    · rintro hh _ ⟨l, hl, rfl⟩; rw [e l hl]; exact hh l hl
  | sum b wl =>
    simp only [renBody, bodyR]
    rw [wsum_ren ok X' Y' wl]
    intro p hp
    exact ⟨(hok p hp).1, hd _ (by simp only [Body.atoms, List.mem_map]; exact ⟨p, hp, rfl⟩)⟩

/-- the renamed body under the pair that belongs to `(X, Y)` -/
theorem bodyR_ren_E (X Y : I) (B : Body) (hok : B.Ok) (hd : ∀ a ∈ B.atoms, a ∈ c.dom) :
    bodyR (c.E X X) (c.E X Y) (renBody c.m B) = bodyR X Y B := by
  rw [bodyR_ren ok _ _ B hok hd]
  apply bodyR_congr
  intro a ha
  exact ⟨R_E ok X X a (hd a ha), R_E ok X Y a (hd a ha)⟩

theorem headR_ren (X' Y' : I) (r : Rule) (hd : ∀ a ∈ r.head, a ∈ c.dom) (h1 : Y' 1 = false) (hx1 : X' 1 = false) :
    headR X' Y' ⟨r.choice, renHead c.m r.head, renBody c.m r.body⟩ = headR (c.R X') (c.R Y') r := by
  unfold headR renHead
  cases hh : r.head with
  | nil =>
    cases r.choice <;> simp [h1, hx1]
  | cons a t =>
    have hd' : ∀ b ∈ a :: t, b ∈ c.dom := by rw [← hh]; exact hd
    simp only [List.isEmpty_cons, Bool.false_eq_true, ↓reduceIte]
    cases r.choice
    · simp only [Bool.false_eq_true, ↓reduceIte]
      rw [Bool.eq_iff_iff]
      simp only [List.any_eq_true, List.mem_map]
      constructor
      · rintro ⟨_, ⟨b, hb, rfl⟩, hy⟩
        exact ⟨b, hb, by simp [Ctx.R, hd' b hb, hy]⟩
      · rintro ⟨b, hb, hy⟩
        refine ⟨c.m b, ⟨b, hb, rfl⟩, ?_⟩
        simpa [Ctx.R, hd' b hb] using hy
    · simp only [↓reduceIte]
      rw [Bool.eq_iff_iff]
      simp only [List.all_eq_true, List.mem_map]
      constructor
      · intro h b hb
        have := h (c.m b) ⟨b, hb, rfl⟩
        simpa [Ctx.R, hd' b hb] using this
      · rintro h _ ⟨b, hb, rfl⟩
        have := h b hb
        simpa [Ctx.R, hd' b hb] using this

theorem headR_ren_E (X Y : I) (r : Rule) (hd : ∀ a ∈ r.head, a ∈ c.dom) (B' : Body) :
    headR (c.E X X) (c.E X Y) ⟨r.choice, renHead c.m r.head, B'⟩ = headR X Y r := by
  have e := headR_ren ok (c.E X X) (c.E X Y) r hd (E_one ok X Y) (E_one ok X X)
  have e2 : headR (c.E X X) (c.E X Y) ⟨r.choice, renHead c.m r.head, B'⟩
      = headR (c.E X X) (c.E X Y) ⟨r.choice, renHead c.m r.head, renBody c.m r.body⟩ := rfl
  rw [e2, e]
  unfold headR
  split
  · rw [Bool.eq_iff_iff]
    simp only [List.all_eq_true]
    constructor
    · intro h a ha; have := h a ha; rwa [R_E ok X X a (hd a ha), R_E ok X Y a (hd a ha)] at this
    · intro h a ha; rw [R_E ok X X a (hd a ha), R_E ok X Y a (hd a ha)]; exact h a ha
  · rw [Bool.eq_iff_iff]
    simp only [List.any_eq_true]
    constructor
    · rintro ⟨a, ha, h⟩; exact ⟨a, ha, by rwa [R_E ok X Y a (hd a ha)] at h⟩
    · rintro ⟨a, ha, h⟩; exact ⟨a, ha, by rwa [R_E ok X Y a (hd a ha)]⟩

end

/-! ### the two directions on reduct models -/
section
variable {c : Ctx} (ok : c.Ok) {P P' : List Rule} (tr : Trans c P P') {X : I}
include ok tr

/-- a reduct model of the input extends to one of the output -/
theorem modelR_forth (X Y : I) (h : ModelR P X Y) : ModelR P' (c.E X X) (c.E X Y) := by
  intro r' hr'
  rcases tr.s1 r' hr' with ⟨r, hr, rfl⟩ | ⟨d, hd, rfl⟩ | ⟨r, hr, n, hn, rfl⟩
  · obtain ⟨h1, h2, h3⟩ := tr.inOk r hr
    have := h r hr
    unfold satR at this ⊢
    unfold renRule
    rw [headR_ren_E ok X Y r h1]
    simp only
    rw [bodyR_ren_E ok X Y r.body h3 h2]
    exact this
  · unfold satR defRule headR
    simp only [Bool.false_eq_true, ↓reduceIte, List.any_cons, List.any_nil, Bool.or_false]
    rw [bodyR_ren_E ok X Y d.2 (ok.defOk d hd) (ok.defAtoms d hd), E_aux ok X Y d hd]
    cases bodyR X Y d.2 <;> rfl
  · obtain ⟨h1, h2, h3⟩ := tr.inOk r hr
    have := h r hr
    unfold satR at this ⊢
    unfold useRule
    rw [headR_ren_E ok X Y r h1]
    have e : bodyR (c.E X X) (c.E X Y) (.normal [(n : Int)]) = bodyR X Y r.body := by
      have := E_aux ok X Y (n, r.body) hn
      simp only at this
      have h2' := ok.aux2 _ hn
      simp only at h2'
      have hpos : (0 : Int) < (n : Int) := by omega
      simp only [bodyR, List.all_cons, List.all_nil, Bool.and_true, litR, hpos, ↓reduceIte, Int.natAbs_natCast]
      exact this
    simp only
    rw [e]
    exact this

/-- a reduct model of the output restricts to one of the input -/
theorem modelR_back (X' Y' : I) (hsub : Sub Y' X') (h1 : X' 1 = false) (h : ModelR P' X' Y') : ModelR P (c.R X') (c.R Y') := by
  have hy1 : Y' 1 = false := by
    cases hy : Y' 1 with
    | false => rfl
    | true => have := hsub 1 hy; rw [h1] at this; exact absurd this (by simp)
  intro r hr
  obtain ⟨i1, i2, i3⟩ := tr.inOk r hr
  rcases tr.s2 r hr with ⟨hc, hh⟩ | hmem | ⟨n, hn, hmem⟩
  · unfold satR headR; simp [hc, hh]
  · have := h _ hmem
    unfold satR at this ⊢
    unfold renRule at this
    rw [headR_ren ok X' Y' r i1 hy1 h1] at this
    simp only at this
    rw [bodyR_ren ok X' Y' r.body i3 i2] at this
    exact this
  · have hdef := h _ (tr.s3 _ hn)
    have huse := h _ hmem
    unfold satR at hdef huse ⊢
    cases hb : bodyR (c.R X') (c.R Y') r.body
    · simp
    · simp only [Bool.not_true, Bool.false_or]
      unfold defRule at hdef
      simp only at hdef
      rw [bodyR_ren ok X' Y' r.body i3 i2, hb] at hdef
      simp only [Bool.not_true, Bool.false_or, headR, Bool.false_eq_true, ↓reduceIte, List.any_cons, List.any_nil, Bool.or_false] at hdef
      unfold useRule at huse
      have h2' := ok.aux2 _ hn
      simp only at h2'
      have hpos : (0 : Int) < (n : Int) := by omega
      have hbody : bodyR X' Y' (.normal [(n : Int)]) = true := by
        simp only [bodyR, List.all_cons, List.all_nil, Bool.and_true, litR, hpos, ↓reduceIte, Int.natAbs_natCast]
        exact hdef
      simp only at huse
      rw [hbody] at huse
      simp only [Bool.not_true, Bool.false_or] at huse
      have e := headR_ren ok X' Y' r i1 hy1 h1
      have e2 : headR X' Y' ⟨r.choice, renHead c.m r.head, .normal [(n : Int)]⟩
          = headR X' Y' ⟨r.choice, renHead c.m r.head, renBody c.m r.body⟩ := rfl
      rw [e2, e] at huse
      exact huse


theorem renLit_ne_zero (l : Int) (hd : l.natAbs ∈ c.dom) : renLit c.m l ≠ 0 := by
  have := ok.img2 _ hd
  unfold renLit; split <;> omega

theorem renBody_ok (B : Body) (hok : B.Ok) (hd : ∀ a ∈ B.atoms, a ∈ c.dom) : (renBody c.m B).Ok := by
  cases B with
  | normal ls =>
    simp only [renBody, Body.Ok, List.mem_map]
    rintro _ ⟨l, hl, rfl⟩
    exact renLit_ne_zero ok tr l (hd _ (by simp only [Body.atoms, List.mem_map]; exact ⟨l, hl, rfl⟩))
  | sum b wl =>
    simp only [renBody, Body.Ok, List.mem_map]
    rintro _ ⟨p, hp, rfl⟩
    exact ⟨renLit_ne_zero ok tr p.1 (hd _ (by simp only [Body.atoms, List.mem_map]; exact ⟨p, hp, rfl⟩)), (hok p hp).2⟩

/-- the bodies of the output respect the contract too -/
theorem out_ok : ∀ r' ∈ P', r'.body.Ok := by
  intro r' hr'
  rcases tr.s1 r' hr' with ⟨r, hr, rfl⟩ | ⟨d, hd, rfl⟩ | ⟨r, hr, n, hn, rfl⟩
  · obtain ⟨_, h2, h3⟩ := tr.inOk r hr
    exact renBody_ok ok tr r.body h3 h2
  · exact renBody_ok ok tr d.2 (ok.defOk d hd) (ok.defAtoms d hd)
  · have := ok.aux2 _ hn
    simp only [useRule, Body.Ok, List.mem_singleton]
    intro l hl; subst hl; simp only at this; omega

/-- head atoms of the output: the false atom, an image, or an auxiliary atom in its own defining rule -/
theorem out_heads (r' : Rule) (hr' : r' ∈ P') (n : Nat) (hn : n ∈ r'.head) :
    n = 1 ∨ (∃ a ∈ c.dom, c.m a = n) ∨ (∃ d ∈ c.defs, d.1 = n ∧ r' = defRule c.m d) := by
  have hren : ∀ r ∈ P, n ∈ renHead c.m r.head → n = 1 ∨ (∃ a ∈ c.dom, c.m a = n) := by
    intro r hr hm
    unfold renHead at hm
    split at hm
    · left; simpa using hm
    · right
      simp only [List.mem_map] at hm
      obtain ⟨a, ha, rfl⟩ := hm
      exact ⟨a, (tr.inOk r hr).1 a ha, rfl⟩
  rcases tr.s1 r' hr' with ⟨r, hr, rfl⟩ | ⟨d, hd, rfl⟩ | ⟨r, hr, k, hk, rfl⟩
  · rcases hren r hr hn with h | h
    · exact Or.inl h
    · exact Or.inr (Or.inl h)
  · right; right
    simp only [defRule, List.mem_singleton] at hn
    exact ⟨d, hd, hn.symm, rfl⟩
  · rcases hren r hr hn with h | h
    · exact Or.inl h
    · exact Or.inr (Or.inl h)

/-- **forth**: a stable model of the input, extended by the values of the auxiliary atoms, is a stable model of the
    output in which the false atom is false -/
theorem translation_stable (hs : Stable P X) : Stable P' (c.E X X) ∧ c.E X X 1 = false ∧ c.R (c.E X X) = X := by
  suffices h : Stable P' (c.E X X) ∧ c.R (c.E X X) = X from ⟨h.1, E_one ok X X, h.2⟩
  have hPok : ∀ r ∈ P, r.body.Ok := fun r hr => (tr.inOk r hr).2.2
  have hXdom : ∀ a, X a = true → a ∈ c.dom := by
    intro a ha
    obtain ⟨r, hr, hm⟩ := stable_in_heads P hPok X hs a ha
    exact (tr.inOk r hr).1 a hm
  have RX : c.R (c.E X X) = X := by
    funext a
    by_cases ha : a ∈ c.dom
    · exact R_E ok X X a ha
    · have : X a = false := by
        cases hx : X a with
        | false => rfl
        | true => exact absurd (hXdom a hx) ha
      simp [Ctx.R, ha, this]
  refine ⟨⟨modelR_forth ok tr X X hs.1, ?_⟩, RX⟩
  intro Y' hsub hm
  have hb := modelR_back ok tr (c.E X X) Y' hsub (E_one ok X X) hm
  rw [RX] at hb
  have hsubR : Sub (c.R Y') X := by
    intro a ha
    simp only [Ctx.R, Bool.and_eq_true, List.contains_iff_mem] at ha
    have := hsub _ ha.2
    rwa [E_img ok X X a ha.1] at this
  have hXR := hs.2 _ hsubR hb
  have hRY : c.R Y' = X := sub_antisymm hsubR hXR
  intro n hn
  by_cases h1 : ∃ a ∈ c.dom, c.m a = n
  · obtain ⟨a, ha, rfl⟩ := h1
    rw [E_img ok X X a ha] at hn
    have := hXR a hn
    simp only [Ctx.R, Bool.and_eq_true] at this
    exact this.2
  · by_cases h2 : ∃ d ∈ c.defs, d.1 = n
    · obtain ⟨d, hd, rfl⟩ := h2
      rw [E_aux ok X X d hd] at hn
      have hsat := hm _ (tr.s3 d hd)
      unfold satR defRule at hsat
      simp only at hsat
      rw [bodyR_ren ok _ _ d.2 (ok.defOk d hd) (ok.defAtoms d hd), RX, hRY, hn] at hsat
      simpa [headR] using hsat
    · rw [E_other ok X X n (fun a ha e => h1 ⟨a, ha, e⟩) (fun d hd e => h2 ⟨d, hd, e⟩)] at hn
      exact absurd hn (by simp)

/-- **back**: every stable model of the output in which the false atom is false comes from a stable model of the
    input — its restriction to the mapped atoms — and is determined by it -/
theorem translation_stable_back (X' : I) (hs : Stable P' X') (h1 : X' 1 = false) :
    Stable P (c.R X') ∧ X' = c.E (c.R X') (c.R X') := by
  have hP'ok := out_ok ok tr
  have hgood : X' = c.E (c.R X') (c.R X') := by
    funext n
    by_cases hi : ∃ a ∈ c.dom, c.m a = n
    · obtain ⟨a, ha, rfl⟩ := hi
      rw [E_img ok _ _ a ha]
      simp [Ctx.R, ha]
    · by_cases hx : ∃ d ∈ c.defs, d.1 = n
      · obtain ⟨d, hd, rfl⟩ := hx
        rw [E_aux ok _ _ d hd, ← bodyR_ren ok X' X' d.2 (ok.defOk d hd) (ok.defAtoms d hd)]
        cases hb : bodyR X' X' (renBody c.m d.2)
        · cases hv : X' d.1 with
          | false => rfl
          | true =>
            exfalso
            obtain ⟨r', hr', hm, hbody⟩ := stable_supported P' hP'ok X' hs d.1 hv
            rcases out_heads ok tr r' hr' d.1 hm with h | ⟨a, ha, h⟩ | ⟨d2, hd2, h, rfl⟩
            · have := ok.aux2 d hd; omega
            · exact ok.imgNoAux a ha d hd h.symm
            · have e := ok.auxFun d2 hd2 d hd h
              unfold defRule at hbody
              simp only at hbody
              rw [e] at hbody
              have := bodyR_mono X' (without_sub X' d.1) _ (renBody_ok ok tr d.2 (ok.defOk d hd) (ok.defAtoms d hd)) hbody
              rw [hb] at this
              exact absurd this (by simp)
        · have hsat := hs.1 _ (tr.s3 d hd)
          unfold satR defRule at hsat
          simp only at hsat
          rw [hb] at hsat
          simpa [headR] using hsat
      · rw [E_other ok _ _ n (fun a ha e => hi ⟨a, ha, e⟩) (fun d hd e => hx ⟨d, hd, e⟩)]
        cases hv : X' n with
        | false => rfl
        | true =>
          exfalso
          obtain ⟨r', hr', hm⟩ := stable_in_heads P' hP'ok X' hs n hv
          rcases out_heads ok tr r' hr' n hm with h | ⟨a, ha, h⟩ | ⟨d2, hd2, h, _⟩
          · subst h; rw [h1] at hv; exact absurd hv (by simp)
          · exact hi ⟨a, ha, h⟩
          · exact hx ⟨d2, hd2, h⟩
  refine ⟨⟨modelR_back ok tr X' X' (Sub.refl _) h1 hs.1, ?_⟩, hgood⟩
  intro Y hsub hm
  have hf := modelR_forth ok tr (c.R X') Y hm
  rw [← hgood] at hf
  have hsubE : Sub (c.E (c.R X') Y) X' := by
    have := E_mono ok (c.R X') hsub
    rwa [← hgood] at this
  have hX'E := hs.2 _ hsubE hf
  intro a ha
  simp only [Ctx.R, Bool.and_eq_true, List.contains_iff_mem] at ha
  have := hX'E _ ha.2
  rwa [E_img ok _ _ a ha.1] at this

end
end PotasscoVerif.Asp
