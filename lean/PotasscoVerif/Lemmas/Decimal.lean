/-
  Decimal printing and reading are inverse: the unit of every writer/reader round trip.
-/
import PotasscoVerif.Model.AspifOut
import PotasscoVerif.Spec.CharStream
import PotasscoVerif.Lemmas.BufferedStream
namespace PotasscoVerif.Decimal
open PotasscoVerif.AspifOut PotasscoVerif.CharStream
open PotasscoVerif.BufferedStream (isDigit toDigit I64MAX isWs)

/-- "starts with a non-digit" (or is empty): what must follow a number for it to be read back alone. -/
def NDS (k : List Nat) : Prop := ∀ c r, k = c :: r → isDigit c = false

theorem NDS_nil : NDS [] := by intro c r h; cases h
theorem NDS_cons {c : Nat} {r : List Nat} (h : isDigit c = false) : NDS (c :: r) := by
  intro c' r' e; cases e; exact h

theorem val_append : ∀ (l1 l2 : List Nat) (a : Nat), val (l1 ++ l2) a = val l2 (val l1 a) := by
  intro l1
  induction l1 with
  | nil => intro l2 a; rfl
  | cons c r ih => intro l2 a; simp [val, ih]

theorem digitsAux_acc : ∀ (f n : Nat) (acc : List Nat), digitsAux f n acc = digitsAux f n [] ++ acc := by
  intro f
  induction f with
  | zero => intro n acc; rfl
  | succ f ih =>
    intro n acc
    unfold digitsAux
    by_cases h : n < 10
    · simp [h]
    · simp only [h, ↓reduceIte]
      rw [ih (n / 10) ((48 + n % 10) :: acc), ih (n / 10) [48 + n % 10]]
      simp

theorem val_digitsAux : ∀ (f n : Nat), n < f → val (digitsAux f n []) 0 = n := by
  intro f
  induction f with
  | zero => intro n h; omega
  | succ f ih =>
    intro n h
    unfold digitsAux
    by_cases h10 : n < 10
    · simp [h10, val, toDigit]
    · simp only [h10, ↓reduceIte]
      rw [digitsAux_acc, val_append, ih (n / 10) (by omega)]
      simp [val, toDigit]; omega

theorem val_printNat (n : Nat) : val (printNat n) 0 = n := val_digitsAux (n + 1) n (by omega)

theorem digitsAux_digits : ∀ (f n : Nat) (acc : List Nat), (∀ c ∈ acc, isDigit c = true) →
    ∀ c ∈ digitsAux f n acc, isDigit c = true := by
  intro f
  induction f with
  | zero => intro n acc h; exact h
  | succ f ih =>
    intro n acc h
    unfold digitsAux
    by_cases h10 : n < 10
    · simp only [h10, ↓reduceIte]
      intro c hc
      rcases List.mem_cons.mp hc with e | e
      · rw [e]; simp [isDigit]; omega
      · exact h c e
    · simp only [h10, ↓reduceIte]
      apply ih
      intro c hc
      rcases List.mem_cons.mp hc with e | e
      · rw [e]; simp [isDigit]; omega
      · exact h c e

theorem printNat_digits (n : Nat) : ∀ c ∈ printNat n, isDigit c = true :=
  digitsAux_digits _ _ [] (by intro c h; cases h)

theorem digitsAux_ne_nil : ∀ (f n : Nat), 0 < f → digitsAux f n [] ≠ [] := by
  intro f n hf
  cases f with
  | zero => omega
  | succ f =>
    unfold digitsAux
    by_cases h10 : n < 10
    · simp [h10]
    · simp only [h10, ↓reduceIte]; rw [digitsAux_acc]; simp

theorem printNat_ne_nil (n : Nat) : printNat n ≠ [] := digitsAux_ne_nil _ _ (by omega)

/-- a digit string followed by a non-digit is read back as exactly that string. -/
theorem digitRun_append : ∀ (ds k : List Nat), (∀ c ∈ ds, isDigit c = true) → NDS k →
    digitRun (ds ++ k) = (ds, k) := by
  intro ds
  induction ds with
  | nil =>
    intro k _ hk
    cases k with
    | nil => rfl
    | cons c r => simp [digitRun, hk c r rfl]
  | cons d ds ih =>
    intro k hd hk
    have h1 : isDigit d = true := hd d (by simp)
    simp only [List.cons_append, digitRun, h1, ↓reduceIte]
    rw [ih k (fun c hc => hd c (by simp [hc])) hk]

/-- "does not start with a blank" (or is empty). -/
def NWS (k : List Nat) : Prop := ∀ c r, k = c :: r → isWs c = false

theorem get_rest_ws (a : AS) (c : Nat) (r : List Nat) (h : a.rest = c :: r) (hc : isWs c = true) :
    a.get.2.rest = r ∨ (c = 13 ∧ ∃ r', r = 10 :: r' ∧ a.get.2.rest = r') := by
  have hc0 : c ≠ 0 := by intro h0; rw [h0] at hc; simp [isWs] at hc
  unfold AS.get
  rw [h]
  simp only [beq_iff_eq, hc0, ↓reduceIte]
  by_cases h13 : c = 13
  · simp only [h13, ↓reduceIte]
    cases r with
    | nil => left; rfl
    | cons y r' =>
      by_cases h10 : y = 10
      · right; subst h10; exact ⟨trivial, r', rfl, rfl⟩
      · left
        split
        · rename_i heq; cases heq; exact absurd rfl h10
        · rfl
  · simp only [h13, ↓reduceIte]
    split <;> left <;> rfl

theorem skipWsF_spec : ∀ (f : Nat) (a : AS) (ws r : List Nat), a.rest = ws ++ r → ws.length < f →
    (∀ c ∈ ws, isWs c = true) → NWS r → (AS.skipWsF f a).rest = r := by
  intro f
  induction f with
  | zero => intro a ws r _ h; omega
  | succ f ih =>
    intro a ws r hr hf hws hnw
    unfold AS.skipWsF
    cases ws with
    | nil =>
      simp only [List.nil_append] at hr
      have : isWs a.peek = false := by
        unfold AS.peek; rw [hr]
        cases r with
        | nil => simp [isWs]
        | cons c r' => exact hnw c r' rfl
      simp [this, hr]
    | cons c ws' =>
      have hc : isWs c = true := hws c (by simp)
      have hpk : a.peek = c := by unfold AS.peek; rw [hr]; rfl
      simp only [hpk, hc, ↓reduceIte]
      have hr' : a.rest = c :: (ws' ++ r) := by rw [hr]; rfl
      rcases get_rest_ws a c (ws' ++ r) hr' hc with h1 | ⟨_, r', h2, h3⟩
      · exact ih _ ws' r h1 (by simp at hf; omega) (fun x hx => hws x (by simp [hx])) hnw
      · cases ws' with
        | nil =>
          simp only [List.nil_append] at h2
          have := hnw 10 r' h2; simp [isWs] at this
        | cons y ws'' =>
          simp only [List.cons_append, List.cons.injEq] at h2
          exact ih _ ws'' r (by rw [h3, h2.2]) (by simp at hf; omega)
            (fun x hx => hws x (by simp [hx])) hnw

theorem skipWs_spec (a : AS) (ws r : List Nat) (hr : a.rest = ws ++ r) (hws : ∀ c ∈ ws, isWs c = true)
    (hnw : NWS r) : a.skipWs.rest = r := by
  unfold AS.skipWs
  exact skipWsF_spec _ _ ws r hr (by rw [hr]; simp; omega) hws hnw

theorem printNat_head_digit (n : Nat) : ∃ d r, printNat n = d :: r ∧ isDigit d = true := by
  cases h : printNat n with
  | nil => exact absurd h (printNat_ne_nil n)
  | cons d r => exact ⟨d, r, rfl, printNat_digits n d (by rw [h]; simp)⟩

/-- **number round trip**: blanks, then the decimal text of `v`, then something that is not a digit, is read
    by the integer matcher as exactly `v` (for every `v` that fits 64 bit), leaving what follows. -/
theorem matchInt_printInt (a : AS) (v : Int) (ws k : List Nat) (hr : a.rest = ws ++ (printInt v ++ k))
    (hws : ∀ c ∈ ws, isWs c = true) (hk : NDS k) (hv : v.natAbs ≤ I64MAX) :
    ∃ a', a.matchInt false = (.val v, a') ∧ a'.rest = k := by
  unfold AS.matchInt
  simp only [Bool.false_eq_true, ↓reduceIte]
  have hnw : NWS (printInt v ++ k) := by
    intro c r h
    unfold printInt at h
    by_cases hneg : v < 0
    · simp only [hneg, ↓reduceIte, List.cons_append, List.cons.injEq] at h; rw [← h.1]; simp [isWs]
    · simp only [hneg, ↓reduceIte] at h
      obtain ⟨d, r', e, hd⟩ := printNat_head_digit v.toNat
      rw [e] at h; simp only [List.cons_append, List.cons.injEq] at h
      rw [← h.1]; simp [isDigit] at hd; simp [isWs]; omega
  have hs := skipWs_spec a ws _ hr hws hnw
  generalize a.skipWs = a0 at hs
  unfold AS.matchIntCore AS.matchIntDigits
  by_cases hneg : v < 0
  · have hp : printInt v = 45 :: printNat v.natAbs := by simp [printInt, hneg]
    have hpk : a0.peek = 45 := by unfold AS.peek; rw [hs, hp]; rfl
    obtain ⟨d, r', e, hd⟩ := printNat_head_digit v.natAbs
    simp only [hpk, beq_self_eq_true, Bool.or_true, ↓reduceIte]
    have hrest : a0.rest.tail = printNat v.natAbs ++ k := by rw [hs, hp]; rfl
    simp only [hrest]
    have hpk2 : AS.peek { rest := printNat v.natAbs ++ k, line := a0.line, canUnget := true } = d := by
      unfold AS.peek; simp only [e]; rfl
    simp only [hpk2, hd, Bool.not_true, Bool.false_eq_true, ↓reduceIte]
    rw [digitRun_append _ _ (printNat_digits _) hk]
    refine ⟨{ rest := k, line := a0.line, canUnget := true }, ?_, rfl⟩
    have hmin : min (val (printNat v.natAbs) 0) I64MAX = v.natAbs := by rw [val_printNat]; exact Nat.min_eq_left hv
    rw [hmin]
    have hvv : -(v.natAbs : Int) = v := by omega
    simp [hvv]
  · have hp : printInt v = printNat v.toNat := by simp [printInt, hneg]
    obtain ⟨d, r', e, hd⟩ := printNat_head_digit v.toNat
    have hpk : a0.peek = d := by unfold AS.peek; rw [hs, hp, e]; rfl
    have hd43 : (d == 43 || d == 45) = false := by simp [isDigit] at hd; simp; omega
    simp only [hpk, hd43, Bool.false_eq_true, ↓reduceIte, hd, Bool.not_true]
    rw [hs, hp, digitRun_append _ _ (printNat_digits _) hk]
    refine ⟨{ rest := k, line := a0.line, canUnget := true }, ?_, rfl⟩
    have hle : v.toNat ≤ I64MAX := by omega
    have hmin : min (val (printNat v.toNat) 0) I64MAX = v.toNat := by rw [val_printNat]; exact Nat.min_eq_left hle
    rw [hmin]
    have hd45 : (d == 45) = false := by simp [isDigit] at hd; simp; omega
    have hvv : (v.toNat : Int) = v := by omega
    simp [hd45, hvv]

/-- sign prefix of a number token: nothing, '+' or '-'. -/
inductive Sign where | none | plus | minus
deriving Repr, DecidableEq

def Sign.text : Sign → List Nat
  | .none => [] | .plus => [43] | .minus => [45]
def Sign.apply : Sign → Nat → Int
  | .minus, n => -(n : Int)
  | _, n => (n : Int)

/-- **general number token**: blanks, an optional sign, a non-empty digit string of ANY length, then a
    non-digit.  The matcher returns the denoted value capped at 2^63-1 (with the sign applied). -/
theorem matchInt_token (a : AS) (sg : Sign) (ds ws k : List Nat) (hr : a.rest = ws ++ (sg.text ++ (ds ++ k)))
    (hws : ∀ c ∈ ws, isWs c = true) (hds : ∀ c ∈ ds, isDigit c = true) (hne : ds ≠ []) (hk : NDS k) :
    ∃ a', a.matchInt false = (.val (sg.apply (min (val ds 0) I64MAX)), a') ∧ a'.rest = k := by
  unfold AS.matchInt
  simp only [Bool.false_eq_true, ↓reduceIte]
  obtain ⟨d, r', e⟩ : ∃ d r', ds = d :: r' := by
    cases ds with
    | nil => exact absurd rfl hne
    | cons d r' => exact ⟨d, r', rfl⟩
  have hd : isDigit d = true := hds d (by rw [e]; simp)
  have hnw : NWS (sg.text ++ (ds ++ k)) := by
    intro c r h
    cases sg with
    | none => simp only [Sign.text, List.nil_append, e, List.cons_append, List.cons.injEq] at h
              rw [← h.1]; simp [isDigit] at hd; simp [isWs]; omega
    | plus => simp only [Sign.text, List.cons_append, List.nil_append, List.cons.injEq] at h; rw [← h.1]; simp [isWs]
    | minus => simp only [Sign.text, List.cons_append, List.nil_append, List.cons.injEq] at h; rw [← h.1]; simp [isWs]
  have hs := skipWs_spec a ws _ hr hws hnw
  generalize a.skipWs = a0 at hs
  unfold AS.matchIntCore AS.matchIntDigits
  have hpk2 : ∀ (l : Nat) (u : Bool), AS.peek { rest := ds ++ k, line := l, canUnget := u } = d := by
    intro l u; unfold AS.peek; simp only [e]; rfl
  cases sg with
  | none =>
    simp only [Sign.text, List.nil_append] at hs
    have hpk : a0.peek = d := by unfold AS.peek; rw [hs, e]; rfl
    have hd43 : (d == 43) = false := by simp [isDigit] at hd; simp; omega
    have hd45 : (d == 45) = false := by simp [isDigit] at hd; simp; omega
    simp only [hpk, hd43, hd45, Bool.or_self, Bool.false_eq_true, ↓reduceIte, hd, Bool.not_true]
    rw [hs, digitRun_append _ _ hds hk]
    exact ⟨{ rest := k, line := a0.line, canUnget := true }, by simp [Sign.apply], rfl⟩
  | plus =>
    simp only [Sign.text, List.cons_append, List.nil_append] at hs
    have hpk : a0.peek = 43 := by unfold AS.peek; rw [hs]; rfl
    have hrest : a0.rest.tail = ds ++ k := by rw [hs]; rfl
    simp only [hpk, beq_self_eq_true, Bool.true_or, ↓reduceIte, hrest, hpk2, hd, Bool.not_true, Bool.false_eq_true]
    rw [digitRun_append _ _ hds hk]
    exact ⟨{ rest := k, line := a0.line, canUnget := true }, by simp [Sign.apply], rfl⟩
  | minus =>
    simp only [Sign.text, List.cons_append, List.nil_append] at hs
    have hpk : a0.peek = 45 := by unfold AS.peek; rw [hs]; rfl
    have hrest : a0.rest.tail = ds ++ k := by rw [hs]; rfl
    simp only [hpk, beq_self_eq_true, Bool.or_true, ↓reduceIte, hrest, hpk2, hd, Bool.not_true, Bool.false_eq_true]
    rw [digitRun_append _ _ hds hk]
    exact ⟨{ rest := k, line := a0.line, canUnget := true }, by simp [Sign.apply], rfl⟩

end PotasscoVerif.Decimal
