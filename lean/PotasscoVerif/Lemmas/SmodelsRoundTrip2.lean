/-
  The smodels round trip (C05), second part: the writer on whole steps and programs in closed form, the reader's step loop, and
  `write_read`: for every program of the supported fragment the text `SmodelsOutput` writes is read back by `SmodelsInput` as the
  canonical form of the program, without error.
-/
import PotasscoVerif.Lemmas.SmodelsRoundTrip
namespace PotasscoVerif.SmRT
open PotasscoVerif PotasscoVerif.AspifOut PotasscoVerif.AspifIn PotasscoVerif.CharStream PotasscoVerif.Decimal
open PotasscoVerif.AspifRT PotasscoVerif.SmodelsOut PotasscoVerif.SmodelsIn
open PotasscoVerif.BufferedStream (isWs isDigit I64MAX)

/-- the writer on a whole step -/
theorem run_step (ext : Bool) (f : Nat) (s : Step) (h : StepOk ext f s) (w : W) :
    run ext f w s.calls = .ok { out := w.out ++ stepText ext w.inc f s, sec := 2, fHead := s.fHead, inc := w.inc } := by
  obtain ⟨_, _, _, _, z90⟩ := strs
  have hc : s.calls = .beginStep :: (s.rs ++ (s.outs ++ asmCalls s.asm ++ [.endStep])) := by
    simp [Step.calls]
  rw [hc]
  simp only [run, SmodelsOut.step]
  rw [run_append, run_rules ext f s.rs _ rfl h.rules]
  simp only
  rw [run_tail ext f s _ (by simp [W.put]) (by simp [W.put, Step.fHead]) h.outs]
  by_cases hi : (ext && w.inc) = true
  · simp [hi, W.put, z90, stepText, stepTextK, Step.fHead]
  · have hi' : (ext && w.inc) = false := by simpa using hi
    simp [hi', W.put, stepText, stepTextK, Step.fHead]

def progCalls (inc : Bool) (steps : List Step) : List Call := [.initProgram inc] ++ (steps.map Step.calls).flatten

theorem run_steps (ext : Bool) (f : Nat) : ∀ (steps : List Step) (w : W), (∀ s ∈ steps, StepOk ext f s) →
    ∃ w', run ext f w (steps.map Step.calls).flatten = .ok w' ∧ w'.out = w.out ++ (steps.map (stepText ext w.inc f)).flatten ∧ w'.inc = w.inc := by
  intro steps
  induction steps with
  | nil => intro w _; exact ⟨w, rfl, by simp, rfl⟩
  | cons s r ih =>
    intro w hok
    simp only [List.map_cons, List.flatten_cons]
    rw [run_append, run_step ext f s (hok s (by simp)) w]
    obtain ⟨w', e, ho, hi⟩ := ih { out := w.out ++ stepText ext w.inc f s, sec := 2, fHead := s.fHead, inc := w.inc } (fun x hx => hok x (by simp [hx]))
    exact ⟨w', e, by rw [ho]; simp, hi⟩

/-- the bytes of a whole program -/
theorem write_prog (ext inc : Bool) (f : Nat) (steps : List Step) (hok : ∀ s ∈ steps, StepOk ext f s) (hinc : inc = true → ext = true) :
    SmodelsOut.write ext f (progCalls inc steps) = ((steps.map (stepText ext inc f)).flatten, true) := by
  unfold SmodelsOut.write progCalls
  have hi : (inc && !ext) = false := by cases inc <;> cases ext <;> simp at hinc ⊢
  simp only [List.singleton_append, run, SmodelsOut.step, hi, Bool.false_eq_true, ↓reduceIte]
  obtain ⟨w', e, ho, _⟩ := run_steps ext f steps { inc := inc } hok
  rw [e]
  simp [ho]

/-! ### the reader on whole programs -/

theorem printNat_rt_head (ext : Bool) (f : Nat) (c : Call) (hc : RuleOk ext f c) (h0 : ruleRT c ≠ 0) :
    ∃ d r, printNat (ruleRT c) = d :: r ∧ isDigit d = true ∧ (d = 57 → ext = true) := by
  have p1 : printNat 1 = [49] := by decide +kernel
  have p2 : printNat 2 = [50] := by decide +kernel
  have p3 : printNat 3 = [51] := by decide +kernel
  have p5 : printNat 5 = [53] := by decide +kernel
  have p6 : printNat 6 = [54] := by decide +kernel
  have p8 : printNat 8 = [56] := by decide +kernel
  have p91 : printNat 91 = [57, 49] := by decide +kernel
  have p92 : printNat 92 = [57, 50] := by decide +kernel
  have nd : ∀ {d : Nat}, d ≠ 57 → (d = 57 → ext = true) := fun h e => absurd e h
  cases c with
  | rule ht head body =>
    cases head with
    | nil =>
      by_cases h1 : ht = 1
      · simp [ruleRT, h1] at h0
      · simp only [ruleRT, List.isEmpty_nil, ↓reduceIte, h1]; exact ⟨49, [], p1, by decide, nd (by decide)⟩
    | cons x r =>
      by_cases h1 : ht = 1
      · simp only [ruleRT, List.isEmpty_cons, Bool.false_eq_true, ↓reduceIte, h1]; exact ⟨51, [], p3, by decide, nd (by decide)⟩
      · simp only [ruleRT, List.isEmpty_cons, Bool.false_eq_true, ↓reduceIte, h1]
        split
        · exact ⟨49, [], p1, by decide, nd (by decide)⟩
        · exact ⟨56, [], p8, by decide, nd (by decide)⟩
  | sumRule ht head b ws =>
    simp only [ruleRT]
    split
    · exact ⟨50, [], p2, by decide, nd (by decide)⟩
    · exact ⟨53, [], p5, by decide, nd (by decide)⟩
  | minimize p ws => exact ⟨54, [], p6, by decide, nd (by decide)⟩
  | external x v =>
    simp only [ruleRT]
    split
    · exact ⟨57, [49], p91, by decide, fun _ => hc.1⟩
    · exact ⟨57, [50], p92, by decide, fun _ => hc.1⟩
  | _ => exact absurd hc (by simp [RuleOk])

theorem rulesText_head (ext : Bool) (f : Nat) : ∀ (rs : List Call) (k : List Nat), (∀ c ∈ rs, RuleOk ext f c) →
    ∃ d r, rulesText f rs ++ (str "0" ++ k) = d :: r ∧ isDigit d = true ∧ (d = 57 → ext = true) := by
  intro rs
  induction rs with
  | nil => intro k _; exact ⟨48, k, by simp [rulesText, str0], by decide, fun e => absurd e (by decide)⟩
  | cons c rs ih =>
    intro k hok
    have e : rulesText f (c :: rs) = ruleText f c ++ rulesText f rs := by simp [rulesText]
    by_cases h0 : ruleRT c = 0
    · rw [e]; simp only [ruleText, h0, ↓reduceIte, List.nil_append]
      exact ih k (fun x hx => hok x (by simp [hx]))
    · obtain ⟨d, r, e1, hd, h57⟩ := printNat_rt_head ext f c (hok c (by simp)) h0
      exact ⟨d, r ++ (ruleFields f c ++ nl ++ rulesText f rs ++ (str "0" ++ k)), by rw [e]; simp [ruleText, h0, e1], hd, h57⟩

theorem stepText_head (ext inc : Bool) (f : Nat) (s : Step) (h : StepOk ext f s) (k : List Nat) :
    ∃ d r, stepTextK ext inc f s k = d :: r ∧ isDigit d = true ∧ (d = 57 → ext = true) := by
  unfold stepTextK
  by_cases hi : (ext && inc) = true
  · have e : str "90 0" = [57, 48, 32, 48] := by decide +kernel
    simp only [hi, ↓reduceIte, e]
    exact ⟨57, _, rfl, by decide, fun _ => by simp only [Bool.and_eq_true] at hi; exact hi.1⟩
  · have hi' : (ext && inc) = false := by simpa using hi
    simp only [hi', Bool.false_eq_true, ↓reduceIte, List.nil_append]
    obtain ⟨d, r, e, hd, h57⟩ := rulesText_head ext f s.rs (nl ++ tailText f s k) h.rules
    exact ⟨d, r, by rw [← e]; simp, hd, h57⟩

def canonCalls (f : Nat) (steps : List Step) : List Call := (steps.map (fun s => [.beginStep] ++ canonStep f s ++ [.endStep])).flatten

theorem stepsK (ext inc : Bool) (f : Nat) (s : Step) (rest : List Step) :
    ((s :: rest).map (stepText ext inc f)).flatten = stepTextK ext inc f s ((rest.map (stepText ext inc f)).flatten) := by
  simp [stepText_append]

theorem stepText_length (ext inc : Bool) (f : Nat) (s : Step) (k : List Nat) : k.length < (stepTextK ext inc f s k).length := by
  simp only [stepTextK, tailText, List.length_append, nl, List.length_cons, List.length_nil]; omega

theorem steps_length (ext inc : Bool) (f : Nat) (steps : List Step) : steps.length ≤ ((steps.map (stepText ext inc f)).flatten).length := by
  induction steps with
  | nil => simp
  | cons s r ih =>
    rw [stepsK]
    have := stepText_length ext inc f s ((r.map (stepText ext inc f)).flatten)
    simp only [List.length_cons]; omega

attribute [local irreducible] SmodelsIn.step more in
theorem sm_stepsLoop_succ (ext : Bool) (fuel : Nat) (inc : Bool) (a : AS) (acc : List Call) : SmodelsIn.stepsLoop ext (fuel + 1) inc a acc =
    (match SmodelsIn.step ext a with
     | (cs, r) =>
       match r with
       | .error l => { calls := acc ++ [.beginStep] ++ cs, err := some l }
       | .ok a1 =>
         match more a1 with
         | (m, a2) =>
           if m && !inc then { calls := acc ++ [.beginStep] ++ cs ++ [.endStep], err := some a2.line }
           else if m then SmodelsIn.stepsLoop ext fuel inc a2 (acc ++ [.beginStep] ++ cs ++ [.endStep])
           else { calls := acc ++ [.beginStep] ++ cs ++ [.endStep], err := none }) := rfl

/-- the step loop on the text of one or more steps (several only in incremental mode: `winc` is the writer's flag, `rinc` what the
    reader derived from the first character) -/
theorem sm_stepsLoop_rt (ext winc rinc : Bool) (f : Nat) : ∀ (rest : List Step) (s : Step) (fuel : Nat) (a : AS) (acc : List Call),
    rest.length < fuel → (∀ st ∈ s :: rest, StepOk ext f st) → (winc = true → ext = true) → (rest ≠ [] → rinc = true) →
    a.rest = ((s :: rest).map (stepText ext winc f)).flatten →
    SmodelsIn.stepsLoop ext fuel rinc a acc = { calls := acc ++ canonCalls f (s :: rest), err := none } := by
  intro rest
  induction rest with
  | nil =>
    intro s fuel a acc hf hok hw _ hr
    obtain ⟨f', rfl⟩ : ∃ f', fuel = f' + 1 := ⟨fuel - 1, by simp at hf; omega⟩
    obtain ⟨a1, e1, r1⟩ := step_rt ext winc f s (hok s (by simp)) hw a [] (by rw [hr]; simp)
    rw [sm_stepsLoop_succ, e1]
    have hm : more a1 = (false, a1.skipWs) := by
      unfold more
      have : a1.skipWs.rest = [] := skipWs_spec a1 nl [] (by rw [r1]) nl_ws (by intro c r e; cases e)
      simp [AS.peek, this]
    simp [hm, canonCalls]
  | cons s2 rest ih =>
    intro s fuel a acc hf hok hw hri hr
    obtain ⟨f', rfl⟩ : ∃ f', fuel = f' + 1 := ⟨fuel - 1, by simp at hf; omega⟩
    have hi : rinc = true := hri (by simp)
    rw [stepsK] at hr
    obtain ⟨a1, e1, r1⟩ := step_rt ext winc f s (hok s (by simp)) hw a _ (by rw [hr, stepText_append])
    rw [sm_stepsLoop_succ, e1]
    obtain ⟨d, r, ed, hd, _⟩ := stepText_head ext winc f s2 (hok s2 (by simp)) ((rest.map (stepText ext winc f)).flatten)
    rw [← stepsK] at ed
    have hrest : a1.skipWs.rest = ((s2 :: rest).map (stepText ext winc f)).flatten :=
      skipWs_spec a1 nl _ r1 nl_ws (by intro c r' e; rw [ed] at e; cases e; exact (digit_props hd).1)
    have hm : more a1 = (true, a1.skipWs) := by
      unfold more
      simp only [AS.peek, hrest, ed, List.headD_cons, Prod.mk.injEq, and_true, bne_iff_ne, ne_eq]
      exact (digit_props hd).2
    have hni : (!rinc) = false := by simp [hi]
    simp only [hm, hni, Bool.and_false, Bool.false_eq_true, ↓reduceIte]
    rw [ih s2 f' a1.skipWs _ (by simp at hf; omega) (fun st hst => hok st (by simp at hst ⊢; right; exact hst)) hw (fun _ => hi) hrest]
    simp [canonCalls]

/-- a program of the supported fragment as the writer is given it -/
structure ProgOk (ext inc : Bool) (f : Nat) (steps : List Step) : Prop where
  nonempty : steps ≠ []
  single   : inc = false → steps.length = 1
  incExt   : inc = true → ext = true
  steps    : ∀ s ∈ steps, StepOk ext f s

/-- **smodels round trip**: every program of the fragment is written without refusal, and reading the text back delivers its
    canonical form (`canonCalls`) without error; the argument of `initProgram` is whatever the first character suggests (the format
    has no header). -/
theorem write_read (ext inc : Bool) (f : Nat) (steps : List Step) (h : ProgOk ext inc f steps) :
    (SmodelsOut.write ext f (progCalls inc steps)).2 = true ∧
    ∃ b, SmodelsIn.read ext (SmodelsOut.write ext f (progCalls inc steps)).1 = { calls := .initProgram b :: canonCalls f steps, err := none } := by
  rw [write_prog ext inc f steps h.steps h.incExt]
  refine ⟨rfl, ?_⟩
  obtain ⟨s, rest, rfl⟩ : ∃ s rest, steps = s :: rest := by
    cases steps with
    | nil => exact absurd rfl h.nonempty
    | cons s r => exact ⟨s, r, rfl⟩
  obtain ⟨d, r, ed, hd, h57⟩ := stepText_head ext inc f s (h.steps s (by simp)) ((rest.map (stepText ext inc f)).flatten)
  rw [← stepsK] at ed
  refine ⟨d == 57, ?_⟩
  unfold SmodelsIn.read
  have hp : (AS.init (((s :: rest).map (stepText ext inc f)).flatten)).peek = d := by
    unfold AS.peek AS.init; simp only; rw [ed]; rfl
  have hcond : (isDigit d && (!(d == 57) || ext)) = true := by
    rw [hd]
    by_cases h9 : d = 57
    · simp [h9, h57 h9]
    · simp [h9]
  have hmulti : rest ≠ [] → (d == 57) = true := by
    intro hne
    have hinc : inc = true := by
      cases hi : inc with
      | true => rfl
      | false => have := h.single hi; simp at this; exact absurd this hne
    have hext := h.incExt hinc
    -- the text starts with the incremental marker
    have e : str "90 0" = [57, 48, 32, 48] := by decide +kernel
    rw [stepsK] at ed
    simp only [stepTextK, hinc, hext, Bool.and_self, ↓reduceIte, e, List.cons_append, List.cons.injEq] at ed
    simp [← ed.1]
  have key := sm_stepsLoop_rt ext inc (d == 57) f rest s ((AS.init (((s :: rest).map (stepText ext inc f)).flatten)).rest.length + 1)
    (AS.init (((s :: rest).map (stepText ext inc f)).flatten)) [.initProgram (d == 57)] (by
      have := steps_length ext inc f (s :: rest)
      simp only [AS.init, List.length_cons] at this ⊢; omega) h.steps h.incExt hmulti rfl
  simp only [hp, hcond, ↓reduceIte]
  rw [key]
  rfl

end PotasscoVerif.SmRT
