/-
  The converter model (Model/Convert.lean) performs the abstract transformation of Lemmas/AspTrans.lean:
  for a step of rules, weight rules, minimize and output directives, the rules it emits are a translation
  (`Asp.Trans`) of the rules it was given, under its own atom map, with one defining rule per auxiliary atom.
-/
import PotasscoVerif.Props.C02
import PotasscoVerif.Lemmas.AspTrans
import PotasscoVerif.Spec.AspCalls
namespace PotasscoVerif.C02
open PotasscoVerif PotasscoVerif.Convert PotasscoVerif.Asp

/-! ### what the mapping helpers leave alone -/
/-- everything of the state except the atom table and the counter -/
def rest (c : CS) := (c.out, c.fail, c.ext, c.minimize, c.externs, c.heur, c.symTab, c.output, c.aux)

@[simp] theorem rest_mapAtom (c : CS) (a : Nat) : rest (c.mapAtom a).1 = rest c := by unfold CS.mapAtom; split <;> rfl
@[simp] theorem rest_updAtom (c : CS) (a : Nat) (f : CAtom → CAtom) : rest (c.updAtom a f) = rest c := rfl
@[simp] theorem rest_mapLit (c : CS) (l : Int) : rest (c.mapLit l).1 = rest c := rest_mapAtom c _
@[simp] theorem rest_mapLits (c : CS) (ls : List Int) (acc : List Int) : rest (c.mapLits ls acc).1 = rest c := by
  induction ls generalizing c acc with
  | nil => rfl
  | cons l r ih => simp only [CS.mapLits, ih, rest_mapLit]
@[simp] theorem rest_mapWLits (c : CS) (ls : List (Int × Int)) (acc : List (Int × Int)) : rest (c.mapWLits ls acc).1 = rest c := by
  induction ls generalizing c acc with
  | nil => rfl
  | cons l r ih => simp only [CS.mapWLits, ih, rest_mapLit]
@[simp] theorem rest_mapHeadAtoms (c : CS) (h : List Nat) (acc : List Nat) : rest (c.mapHeadAtoms h acc).1 = rest c := by
  induction h generalizing c acc with
  | nil => rfl
  | cons a r ih => simp only [CS.mapHeadAtoms, ih, rest_updAtom, rest_mapAtom]
@[simp] theorem rest_mapHead (c : CS) (h : List Nat) : rest (c.mapHead h).1 = rest c := by simp [CS.mapHead]

theorem rest_out {c c' : CS} (h : rest c' = rest c) : c'.out = c.out := congrArg (·.1) h
theorem rest_fail {c c' : CS} (h : rest c' = rest c) : c'.fail = c.fail := congrArg (·.2.1) h
theorem rest_aux {c c' : CS} (h : rest c' = rest c) : c'.aux = c.aux := congrArg (·.2.2.2.2.2.2.2.2) h

/-! ### the values the mapping helpers return, in terms of any map that agrees with the resulting state -/
def domOf (c : CS) : List Nat := (abs c).ids.map (·.1)

/-- `m` gives every mapped atom its image -/
def Agree (c : CS) (m : Nat → Nat) : Prop := ∀ p ∈ (abs c).ids, m p.1 = p.2

theorem steps_ids {c c' : CS} (h : Steps (abs c) (abs c')) (hi : Inv (abs c)) : ∀ p ∈ (abs c).ids, p ∈ (abs c').ids :=
  (steps_inv h hi).2.2.1

theorem steps_inv' {c c' : CS} (h : Steps (abs c) (abs c')) (hi : Inv (abs c)) : Inv (abs c') := (steps_inv h hi).1

theorem agree_back {c c' : CS} (h : Steps (abs c) (abs c')) (hi : Inv (abs c)) {m : Nat → Nat} (ha : Agree c' m) : Agree c m :=
  fun p hp => ha p (steps_ids h hi p hp)

theorem dom_mono {c c' : CS} (h : Steps (abs c) (abs c')) (hi : Inv (abs c)) : ∀ a ∈ domOf c, a ∈ domOf c' := by
  intro a ha
  simp only [domOf, List.mem_map] at ha ⊢
  obtain ⟨p, hp, rfl⟩ := ha
  exact ⟨p, steps_ids h hi p hp, rfl⟩

theorem mapAtom_mem (c : CS) (a : Nat) : (a, (c.mapAtom a).2.smId) ∈ (abs (c.mapAtom a).1).ids := by
  unfold CS.mapAtom
  cases h : c.find a with
  | some x => exact img_mem c a x.smId (by simp [img, h])
  | none => simp [abs]

theorem mapLit_val (c : CS) (l : Int) (m : Nat → Nat) (ha : Agree (c.mapLit l).1 m) : (c.mapLit l).2 = renLit m l := by
  have := ha _ (mapAtom_mem c l.natAbs)
  simp only at this
  unfold CS.mapLit renLit
  simp only [this]

theorem mapLits_val (c : CS) (hi : Inv (abs c)) (ls acc : List Int) (m : Nat → Nat) (ha : Agree (c.mapLits ls acc).1 m) :
    (c.mapLits ls acc).2 = acc ++ ls.map (renLit m) := by
  induction ls generalizing c acc with
  | nil => simp [CS.mapLits]
  | cons l r ih =>
    simp only [CS.mapLits] at ha ⊢
    have hi1 := steps_inv' (mapLit_steps c l) hi
    rw [ih _ hi1 _ ha]
    have := mapLit_val c l m (agree_back (mapLits_steps _ r _) hi1 ha)
    rw [this]; simp

theorem mapWLits_val (c : CS) (hi : Inv (abs c)) (ls acc : List (Int × Int)) (m : Nat → Nat) (ha : Agree (c.mapWLits ls acc).1 m) :
    (c.mapWLits ls acc).2 = acc ++ ls.map (fun p => (renLit m p.1, p.2)) := by
  induction ls generalizing c acc with
  | nil => simp [CS.mapWLits]
  | cons l r ih =>
    simp only [CS.mapWLits] at ha ⊢
    have hi1 := steps_inv' (mapLit_steps c l.1) hi
    rw [ih _ hi1 _ ha]
    have := mapLit_val c l.1 m (agree_back (mapWLits_steps _ r _) hi1 ha)
    rw [this]; simp

theorem mapHeadAtoms_val (c : CS) (hi : Inv (abs c)) (h acc : List Nat) (m : Nat → Nat) (ha : Agree (c.mapHeadAtoms h acc).1 m) :
    (c.mapHeadAtoms h acc).2 = acc ++ h.map m := by
  induction h generalizing c acc with
  | nil => simp [CS.mapHeadAtoms]
  | cons a r ih =>
    simp only [CS.mapHeadAtoms] at ha ⊢
    have e := abs_updAtom (c.mapAtom a).1 a (fun x => { x with head := true }) (fun _ => rfl)
    have hi1 : Inv (abs ((c.mapAtom a).1.updAtom a (fun x => { x with head := true }))) := by
      rw [e]; exact steps_inv' (mapAtom_steps c a) hi
    rw [ih _ hi1 _ ha]
    have hag := agree_back (mapHeadAtoms_steps _ r _) hi1 ha
    unfold Agree at hag
    rw [e] at hag
    have := hag _ (mapAtom_mem c a)
    simp only at this
    rw [← this]; simp

theorem mapHead_val (c : CS) (hi : Inv (abs c)) (h : List Nat) (m : Nat → Nat) (ha : Agree (c.mapHead h).1 m) :
    (c.mapHead h).2 = renHead m h := by
  unfold CS.mapHead at ha ⊢
  simp only at ha ⊢
  rw [mapHeadAtoms_val c hi h [] m ha]
  unfold renHead
  cases h <;> simp

/-! ### the atoms the helpers were given are mapped afterwards -/
theorem mapAtom_dom (c : CS) (a : Nat) : a ∈ domOf (c.mapAtom a).1 := by
  simp only [domOf, List.mem_map]
  exact ⟨_, mapAtom_mem c a, rfl⟩

theorem mapLits_dom (c : CS) (hi : Inv (abs c)) (ls acc : List Int) : ∀ l ∈ ls, l.natAbs ∈ domOf (c.mapLits ls acc).1 := by
  induction ls generalizing c acc with
  | nil => intro l h; cases h
  | cons x r ih =>
    intro l hl
    simp only [CS.mapLits]
    have hi1 := steps_inv' (mapLit_steps c x) hi
    rcases List.mem_cons.mp hl with h | h
    · subst h
      exact dom_mono (mapLits_steps _ r _) hi1 _ (mapAtom_dom c _)
    · exact ih _ hi1 _ l h

theorem mapWLits_dom (c : CS) (hi : Inv (abs c)) (ls acc : List (Int × Int)) : ∀ p ∈ ls, p.1.natAbs ∈ domOf (c.mapWLits ls acc).1 := by
  induction ls generalizing c acc with
  | nil => intro l h; cases h
  | cons x r ih =>
    intro l hl
    simp only [CS.mapWLits]
    have hi1 := steps_inv' (mapLit_steps c x.1) hi
    rcases List.mem_cons.mp hl with h | h
    · subst h
      exact dom_mono (mapWLits_steps _ r _) hi1 _ (mapAtom_dom c _)
    · exact ih _ hi1 _ l h

theorem mapHeadAtoms_dom (c : CS) (hi : Inv (abs c)) (h acc : List Nat) : ∀ a ∈ h, a ∈ domOf (c.mapHeadAtoms h acc).1 := by
  induction h generalizing c acc with
  | nil => intro l h; cases h
  | cons x r ih =>
    intro a ha
    simp only [CS.mapHeadAtoms]
    have e := abs_updAtom (c.mapAtom x).1 x (fun y => { y with head := true }) (fun _ => rfl)
    have hi1 : Inv (abs ((c.mapAtom x).1.updAtom x (fun y => { y with head := true }))) := by
      rw [e]; exact steps_inv' (mapAtom_steps c x) hi
    rcases List.mem_cons.mp ha with h | h
    · subst h
      apply dom_mono (mapHeadAtoms_steps _ r _) hi1
      unfold domOf; rw [e]; exact mapAtom_dom c _
    · exact ih _ hi1 _ a h

theorem mapHead_dom (c : CS) (hi : Inv (abs c)) (h : List Nat) : ∀ a ∈ h, a ∈ domOf (c.mapHead h).1 :=
  mapHeadAtoms_dom c hi h []

/-! ### the rules in a call list (`inRule`, `rulesOf`: Spec/AspCalls.lean) -/

theorem rulesOf_append (a b : List Call) : rulesOf (a ++ b) = rulesOf a ++ rulesOf b := by simp [rulesOf]

/-! ### the translation relation without its side conditions, and how it grows -/
structure TS (m : Nat → Nat) (defs : List (Nat × Body)) (P P' : List Rule) : Prop where
  s1 : ∀ r' ∈ P', (∃ r ∈ P, r' = renRule m r) ∨ (∃ d ∈ defs, r' = defRule m d) ∨
        (∃ r ∈ P, ∃ n, (n, r.body) ∈ defs ∧ r' = useRule m r n)
  s2 : ∀ r ∈ P, (r.choice = true ∧ r.head = []) ∨ renRule m r ∈ P' ∨ ∃ n, (n, r.body) ∈ defs ∧ useRule m r n ∈ P'
  s3 : ∀ d ∈ defs, defRule m d ∈ P'

theorem TS.nil (m : Nat → Nat) : TS m [] [] [] := ⟨by simp, by simp, by simp⟩

theorem TS.snoc_direct {m defs P P'} (h : TS m defs P P') (r : Rule) : TS m defs (P ++ [r]) (P' ++ [renRule m r]) := by
  refine ⟨?_, ?_, ?_⟩
  · intro r' hr'
    rcases List.mem_append.mp hr' with hm | hm
    · rcases h.s1 r' hm with ⟨r0, h0, e⟩ | hd | ⟨r0, h0, n, hn, e⟩
      · exact Or.inl ⟨r0, by simp [h0], e⟩
      · exact Or.inr (Or.inl hd)
      · exact Or.inr (Or.inr ⟨r0, by simp [h0], n, hn, e⟩)
    · simp only [List.mem_singleton] at hm
      exact Or.inl ⟨r, by simp, hm⟩
  · intro r0 h0
    rcases List.mem_append.mp h0 with hm | hm
    · rcases h.s2 r0 hm with h1 | h1 | ⟨n, hn, h1⟩
      · exact Or.inl h1
      · exact Or.inr (Or.inl (by simp [h1]))
      · exact Or.inr (Or.inr ⟨n, hn, by simp [h1]⟩)
    · simp only [List.mem_singleton] at hm
      subst hm
      exact Or.inr (Or.inl (by simp))
  · intro d hd; have := h.s3 d hd; simp [this]

theorem TS.snoc_drop {m defs P P'} (h : TS m defs P P') (r : Rule) (hc : r.choice = true) (hh : r.head = []) : TS m defs (P ++ [r]) P' := by
  refine ⟨?_, ?_, h.s3⟩
  · intro r' hr'
    rcases h.s1 r' hr' with ⟨r0, h0, e⟩ | hd | ⟨r0, h0, n, hn, e⟩
    · exact Or.inl ⟨r0, by simp [h0], e⟩
    · exact Or.inr (Or.inl hd)
    · exact Or.inr (Or.inr ⟨r0, by simp [h0], n, hn, e⟩)
  · intro r0 h0
    rcases List.mem_append.mp h0 with hm | hm
    · exact h.s2 r0 hm
    · simp only [List.mem_singleton] at hm
      subst hm
      exact Or.inl ⟨hc, hh⟩

theorem TS.snoc_def {m defs P P'} (h : TS m defs P P') (d : Nat × Body) : TS m (defs ++ [d]) P (P' ++ [defRule m d]) := by
  refine ⟨?_, ?_, ?_⟩
  · intro r' hr'
    rcases List.mem_append.mp hr' with hm | hm
    · rcases h.s1 r' hm with h1 | ⟨d0, hd0, e⟩ | ⟨r0, h0, n, hn, e⟩
      · exact Or.inl h1
      · exact Or.inr (Or.inl ⟨d0, by simp [hd0], e⟩)
      · exact Or.inr (Or.inr ⟨r0, h0, n, by simp [hn], e⟩)
    · simp only [List.mem_singleton] at hm
      exact Or.inr (Or.inl ⟨d, by simp, hm⟩)
  · intro r0 h0
    rcases h.s2 r0 h0 with h1 | h1 | ⟨n, hn, h1⟩
    · exact Or.inl h1
    · exact Or.inr (Or.inl (by simp [h1]))
    · exact Or.inr (Or.inr ⟨n, by simp [hn], by simp [h1]⟩)
  · intro d0 hd0
    rcases List.mem_append.mp hd0 with hm | hm
    · have := h.s3 d0 hm; simp [this]
    · simp only [List.mem_singleton] at hm; subst hm; simp

theorem TS.snoc_split {m defs P P'} (h : TS m defs P P') (r : Rule) (n : Nat) :
    TS m (defs ++ [(n, r.body)]) (P ++ [r]) (P' ++ [defRule m (n, r.body), useRule m r n]) := by
  have h1 := h.snoc_def (n, r.body)
  refine ⟨?_, ?_, ?_⟩
  · intro r' hr'
    have : r' ∈ (P' ++ [defRule m (n, r.body)]) ∨ r' = useRule m r n := by
      simp only [List.mem_append, List.mem_cons, List.mem_singleton, List.not_mem_nil, or_false] at hr' ⊢
      rcases hr' with h | h | h
      · exact Or.inl (Or.inl h)
      · exact Or.inl (Or.inr h)
      · exact Or.inr h
    rcases this with hm | hm
    · rcases h1.s1 r' hm with ⟨r0, h0, e⟩ | hd | ⟨r0, h0, k, hk, e⟩
      · exact Or.inl ⟨r0, by simp [h0], e⟩
      · exact Or.inr (Or.inl hd)
      · exact Or.inr (Or.inr ⟨r0, by simp [h0], k, hk, e⟩)
    · exact Or.inr (Or.inr ⟨r, by simp, n, by simp, hm⟩)
  · intro r0 h0
    rcases List.mem_append.mp h0 with hm | hm
    · rcases h1.s2 r0 hm with h2 | h2 | ⟨k, hk, h2⟩
      · exact Or.inl h2
      · refine Or.inr (Or.inl ?_)
        simp only [List.mem_append, List.mem_singleton] at h2
        simp only [List.mem_append, List.mem_cons]
        rcases h2 with h2 | h2
        · exact Or.inl h2
        · exact Or.inr (Or.inl h2)
      · refine Or.inr (Or.inr ⟨k, hk, ?_⟩)
        simp only [List.mem_append, List.mem_singleton] at h2
        simp only [List.mem_append, List.mem_cons]
        rcases h2 with h2 | h2
        · exact Or.inl h2
        · exact Or.inr (Or.inl h2)
    · simp only [List.mem_singleton] at hm
      subst hm
      exact Or.inr (Or.inr ⟨n, by simp, by simp⟩)
  · intro d0 hd0
    have := h1.s3 d0 hd0
    simp only [List.mem_append, List.mem_singleton] at this
    simp only [List.mem_append, List.mem_cons]
    rcases this with h2 | h2
    · exact Or.inl h2
    · exact Or.inr (Or.inl h2)


/-! ### the invariant of a step -/
/-- a choice rule over no atoms says nothing; the converter drops it -/
def kept (r : Rule) : Bool := !(r.choice && r.head.isEmpty)

structure J (c : CS) (P : List Rule) (defs : List (Nat × Body)) : Prop where
  inv    : Inv (abs c)
  nofail : c.fail = false
  keys   : defs.map (·.1) = c.aux
  defsOk : ∀ d ∈ defs, d.2.Ok ∧ ∀ a ∈ d.2.atoms, a ∈ domOf c
  inOk   : ∀ r ∈ P, (∀ a ∈ r.head, a ∈ domOf c) ∧ (∀ a ∈ r.body.atoms, a ∈ domOf c) ∧ r.body.Ok
  tr     : ∀ m, Agree c m → TS m defs P (rulesOf c.out)

/-- the state moved on by mapping atoms only -/
theorem J.of' {c c' : CS} {P defs} (hj : J c P defs) (hs : Steps (abs c) (abs c')) (hf : c'.fail = c.fail)
    (hx : c'.aux = c.aux) (ho : rulesOf c'.out = rulesOf c.out) : J c' P defs := by
  refine ⟨steps_inv' hs hj.inv, hf ▸ hj.nofail, hx ▸ hj.keys, ?_, ?_, ?_⟩
  · intro d hd; exact ⟨(hj.defsOk d hd).1, fun a ha => dom_mono hs hj.inv a ((hj.defsOk d hd).2 a ha)⟩
  · intro r hr
    obtain ⟨h1, h2, h3⟩ := hj.inOk r hr
    exact ⟨fun a ha => dom_mono hs hj.inv a (h1 a ha), fun a ha => dom_mono hs hj.inv a (h2 a ha), h3⟩
  · intro m ha; rw [ho]; exact hj.tr m (agree_back hs hj.inv ha)

theorem J.of {c c' : CS} {P defs} (hj : J c P defs) (hs : Steps (abs c) (abs c')) (hf : c'.fail = c.fail)
    (_hh : c'.heur = c.heur) (hx : c'.aux = c.aux) (ho : rulesOf c'.out = rulesOf c.out) : J c' P defs := hj.of' hs hf hx ho

theorem J.of_rest {c c' : CS} {P defs} (hj : J c P defs) (hs : Steps (abs c) (abs c')) (hr : rest c' = rest c) : J c' P defs :=
  hj.of hs (rest_fail hr) (congrArg (·.2.2.2.2.2.1) hr) (rest_aux hr) (by rw [rest_out hr])

theorem J.emit {c : CS} {P defs} (hj : J c P defs) (x : Call) (hx : inRule x = none) : J (c.emit x) P defs :=
  hj.of (.refl _) rfl rfl rfl (by simp [CS.emit, rulesOf_append, rulesOf, hx])

theorem J.foldl {β : Type} {P defs} (f : CS → β → CS) (hf : ∀ c x, J c P defs → J (f c x) P defs) (l : List β) (c : CS) (hj : J c P defs) :
    J (l.foldl f c) P defs := by
  induction l generalizing c with
  | nil => exact hj
  | cons x r ih => exact ih _ (hf c x hj)

theorem apply_rule {c : CS} {P defs} (hj : J c P defs) (ht : Nat) (head : List Nat) (body : List Int) (hb : ∀ l ∈ body, l ≠ 0) :
    J (c.apply (.rule ht head body)) (P ++ (rulesOf [.rule ht head body]).filter kept) defs := by
  have hr : rulesOf [.rule ht head body] = [⟨ht != 0, head, .normal body⟩] := rfl
  unfold CS.apply
  simp only [hj.nofail, Bool.false_eq_true, ↓reduceIte]
  split
  · rename_i hc
    have hk : kept ⟨ht != 0, head, .normal body⟩ = true := by
      unfold kept
      simp only [Bool.or_eq_true, Bool.not_eq_true', beq_iff_eq] at hc
      rcases hc with h | h
      · simp [h]
      · simp [h]
    rw [hr, List.filter_cons_of_pos hk, List.filter_nil]
    have hs1 := mapHead_steps c head
    have hi1 := steps_inv' hs1 hj.inv
    have hs2 := mapLits_steps (c.mapHead head).1 body []
    have hJ2 : J ((c.mapHead head).1.mapLits body []).1 P defs := hj.of_rest (hs1.trans hs2) (by simp)
    have hout : ((c.mapHead head).1.mapLits body []).1.out = c.out := rest_out (by simp)
    refine ⟨hJ2.inv, hJ2.nofail, hJ2.keys, hJ2.defsOk, ?_, ?_⟩
    · intro r hrm
      rcases List.mem_append.mp hrm with h | h
      · exact hJ2.inOk r h
      · simp only [List.mem_singleton] at h
        subst h
        refine ⟨fun a ha => dom_mono hs2 hi1 a (mapHead_dom c hj.inv head a ha), ?_, hb⟩
        intro a ha
        simp only [Body.atoms, List.mem_map] at ha
        obtain ⟨l, hl, rfl⟩ := ha
        exact mapLits_dom _ hi1 body [] l hl
    · intro m ha
      have ha2 : Agree ((c.mapHead head).1.mapLits body []).1 m := ha
      have e1 := mapHead_val c hj.inv head m (agree_back hs2 hi1 ha2)
      have e2 := mapLits_val _ hi1 body [] m ha2
      have := (hJ2.tr m ha2).snoc_direct ⟨ht != 0, head, .normal body⟩
      simp only [CS.emit, rulesOf_append]
      have e3 : rulesOf [Call.rule ht (c.mapHead head).2 ((c.mapHead head).1.mapLits body []).2]
          = [renRule m ⟨ht != 0, head, .normal body⟩] := by
        simp only [rulesOf, List.filterMap_cons, inRule, List.filterMap_nil, renRule, renBody, e1, e2, List.nil_append]
      rw [e3]
      exact this
  · rename_i hc
    have hk : kept ⟨ht != 0, head, .normal body⟩ = false := by
      unfold kept
      simp only [Bool.or_eq_true, Bool.not_eq_true', beq_iff_eq, not_or, Bool.not_eq_false] at hc
      simp [hc.1, hc.2]
    rw [hr, List.filter_cons_of_neg (by simp [hk]), List.filter_nil, List.append_nil]
    exact hj


theorem abs_newAux (c : CS) : abs { c with next := c.next + 1, aux := c.aux ++ [c.next] }
    = { abs c with next := (abs c).next + 1, aux := (abs c).aux ++ [(abs c).next] } := rfl

theorem apply_sumRule {c : CS} {P defs} (hj : J c P defs) (ht : Nat) (head : List Nat) (bound : Int) (body : List (Int × Int))
    (hb : ∀ p ∈ body, p.1 ≠ 0 ∧ 0 ≤ p.2) :
    ∃ defs', J (c.apply (.sumRule ht head bound body)) (P ++ (rulesOf [.sumRule ht head bound body]).filter kept) defs' ∧ (∀ d ∈ defs, d ∈ defs') := by
  have hr : rulesOf [.sumRule ht head bound body] = [⟨ht != 0, head, .sum bound body⟩] := rfl
  unfold CS.apply
  simp only [hj.nofail, Bool.false_eq_true, ↓reduceIte]
  split
  · rename_i hc
    have hk : kept ⟨ht != 0, head, .sum bound body⟩ = true := by
      unfold kept
      simp only [Bool.or_eq_true, Bool.not_eq_true', beq_iff_eq] at hc
      rcases hc with h | h
      · simp [h]
      · simp [h]
    rw [hr, List.filter_cons_of_pos hk, List.filter_nil]
    have hs1 := mapHead_steps c head
    have hi1 := steps_inv' hs1 hj.inv
    have hs2 := mapWLits_steps (c.mapHead head).1 body []
    have hJ2 : J ((c.mapHead head).1.mapWLits body []).1 P defs := hj.of_rest (hs1.trans hs2) (by simp)
    have hnew : (∀ a ∈ head, a ∈ domOf ((c.mapHead head).1.mapWLits body []).1) ∧
        (∀ a ∈ (Body.sum bound body).atoms, a ∈ domOf ((c.mapHead head).1.mapWLits body []).1) := by
      refine ⟨fun a ha => dom_mono hs2 hi1 a (mapHead_dom c hj.inv head a ha), ?_⟩
      intro a ha
      simp only [Body.atoms, List.mem_map] at ha
      obtain ⟨l, hl, rfl⟩ := ha
      exact mapWLits_dom _ hi1 body [] l hl
    split
    · -- written as it is
      refine ⟨defs, ⟨hJ2.inv, hJ2.nofail, hJ2.keys, hJ2.defsOk, ?_, ?_⟩, fun d hd => hd⟩
      · intro r hrm
        rcases List.mem_append.mp hrm with h | h
        · exact hJ2.inOk r h
        · simp only [List.mem_singleton] at h
          subst h
          exact ⟨hnew.1, hnew.2, hb⟩
      · intro m ha
        have ha2 : Agree ((c.mapHead head).1.mapWLits body []).1 m := ha
        have e1 := mapHead_val c hj.inv head m (agree_back hs2 hi1 ha2)
        have e2 := mapWLits_val _ hi1 body [] m ha2
        have := (hJ2.tr m ha2).snoc_direct ⟨ht != 0, head, .sum bound body⟩
        simp only [CS.emit, rulesOf_append]
        have e3 : rulesOf [Call.sumRule ht (c.mapHead head).2 bound ((c.mapHead head).1.mapWLits body []).2]
            = [renRule m ⟨ht != 0, head, .sum bound body⟩] := by
          simp only [rulesOf, List.filterMap_cons, inRule, List.filterMap_nil, renRule, renBody, e1, e2, List.nil_append]
        rw [e3]
        exact this
    · -- through an auxiliary atom
      let c2 := ((c.mapHead head).1.mapWLits body []).1
      have hs3 : Steps (abs c2) (abs { c2 with next := c2.next + 1, aux := c2.aux ++ [c2.next] }) := newAux_steps c2
      refine ⟨defs ++ [(c2.next, .sum bound body)], ⟨steps_inv' hs3 hJ2.inv, hJ2.nofail, ?_, ?_, ?_, ?_⟩, fun d hd => by simp [hd]⟩
      · simp only [List.map_append, List.map_cons, List.map_nil, hJ2.keys]; rfl
      · intro d hd
        rcases List.mem_append.mp hd with h | h
        · exact hJ2.defsOk d h
        · simp only [List.mem_singleton] at h
          subst h
          exact ⟨hb, hnew.2⟩
      · intro r hrm
        rcases List.mem_append.mp hrm with h | h
        · exact hJ2.inOk r h
        · simp only [List.mem_singleton] at h
          subst h
          exact ⟨hnew.1, hnew.2, hb⟩
      · intro m ha
        have ha2 : Agree c2 m := ha
        have e1 := mapHead_val c hj.inv head m (agree_back hs2 hi1 ha2)
        have e2 := mapWLits_val _ hi1 body [] m ha2
        have := (hJ2.tr m ha2).snoc_split ⟨ht != 0, head, .sum bound body⟩ c2.next
        simp only [CS.emit, rulesOf_append, List.append_assoc]
        have e3 : rulesOf [Call.sumRule 0 [c2.next] bound ((c.mapHead head).1.mapWLits body []).2] ++
            rulesOf [Call.rule ht (c.mapHead head).2 [(c2.next : Int)]]
            = [defRule m (c2.next, .sum bound body), useRule m ⟨ht != 0, head, .sum bound body⟩ c2.next] := by
          simp only [rulesOf, List.filterMap_cons, inRule, List.filterMap_nil, defRule, useRule, renBody, e1, e2, List.nil_append,
            List.cons_append]
          rfl
        rw [e3]
        exact this
  · rename_i hc
    have hk : kept ⟨ht != 0, head, .sum bound body⟩ = false := by
      unfold kept
      simp only [Bool.or_eq_true, Bool.not_eq_true', beq_iff_eq, not_or, Bool.not_eq_false] at hc
      simp [hc.1, hc.2]
    rw [hr, List.filter_cons_of_neg (by simp [hk]), List.filter_nil, List.append_nil]
    exact ⟨defs, hj, fun d hd => hd⟩

/-- `aux :- cond.`: one more auxiliary atom with its defining rule -/
theorem J.auxAtom {c : CS} {P defs} (hj : J c P defs) (cond : List Int) (hb : ∀ l ∈ cond, l ≠ 0) :
    J (c.auxAtom cond).1 P (defs ++ [(c.next, .normal cond)]) := by
  unfold CS.auxAtom
  simp only
  obtain ⟨c1, hc1⟩ : ∃ c1 : CS, c1 = { c with next := c.next + 1, aux := c.aux ++ [c.next] } := ⟨_, rfl⟩
  rw [← hc1]
  have hs1 : Steps (abs c) (abs c1) := by rw [hc1]; exact newAux_steps c
  have c1out : c1.out = c.out := by rw [hc1]
  have c1fail : c1.fail = c.fail := by rw [hc1]
  have c1ext : c1.externs = c.externs := by rw [hc1]
  have c1heur : c1.heur = c.heur := by rw [hc1]
  have c1aux : c1.aux = c.aux ++ [c.next] := by rw [hc1]
  have hi1 := steps_inv' hs1 hj.inv
  have hs2 := mapLits_steps c1 cond []
  have hrest : rest (c1.mapLits cond []).1 = rest c1 := by simp
  have hatoms : ∀ a ∈ (Body.normal cond).atoms, a ∈ domOf (c1.mapLits cond []).1 := by
    intro a ha
    simp only [Body.atoms, List.mem_map] at ha
    obtain ⟨l, hl, rfl⟩ := ha
    exact mapLits_dom c1 hi1 cond [] l hl
  refine ⟨steps_inv' hs2 hi1, ?_, ?_, ?_, ?_, ?_⟩
  · show (c1.mapLits cond []).1.fail = false
    rw [rest_fail hrest, c1fail]; exact hj.nofail
  · show _ = (c1.mapLits cond []).1.aux
    rw [rest_aux hrest, c1aux]
    simp only [List.map_append, List.map_cons, List.map_nil, hj.keys]
  · intro d hd
    rcases List.mem_append.mp hd with h | h
    · exact ⟨(hj.defsOk d h).1, fun a ha => dom_mono (hs1.trans hs2) hj.inv a ((hj.defsOk d h).2 a ha)⟩
    · simp only [List.mem_singleton] at h
      subst h
      exact ⟨hb, hatoms⟩
  · intro r hr
    obtain ⟨h1, h2, h3⟩ := hj.inOk r hr
    exact ⟨fun a ha => dom_mono (hs1.trans hs2) hj.inv a (h1 a ha), fun a ha => dom_mono (hs1.trans hs2) hj.inv a (h2 a ha), h3⟩
  · intro m ha
    have ha2 : Agree (c1.mapLits cond []).1 m := ha
    have e2 := mapLits_val c1 hi1 cond [] m ha2
    have hold := hj.tr m (agree_back (hs1.trans hs2) hj.inv ha2)
    have hout : (c1.mapLits cond []).1.out = c.out := by rw [rest_out hrest, c1out]
    simp only [CS.emit, rulesOf_append, hout]
    have e3 : rulesOf [Call.rule 0 [c.next] (c1.mapLits cond []).2] = [defRule m (c.next, .normal cond)] := by
      simp only [rulesOf, List.filterMap_cons, inRule, List.filterMap_nil, defRule, renBody, e2, List.nil_append]
      rfl
    rw [e3]
    exact hold.snoc_def _

/-- the atom `n` stands for the condition `cond`: it is the image of the single positive literal, or an auxiliary
    atom defined by the condition -/
def Rep (c : CS) (defs : List (Nat × Body)) (n : Nat) (cond : List Int) : Prop :=
  (∃ a : Nat, cond = [(a : Int)] ∧ 0 < a ∧ (a, n) ∈ (abs c).ids) ∨ (n, Body.normal cond) ∈ defs

theorem Rep.mono {c c' : CS} {defs defs' : List (Nat × Body)} {n : Nat} {cond : List Int} (h : Rep c defs n cond)
    (hs : Steps (abs c) (abs c')) (hi : Inv (abs c)) (hd : ∀ d ∈ defs, d ∈ defs') : Rep c' defs' n cond := by
  rcases h with ⟨a, h1, h2, h3⟩ | h
  · exact Or.inl ⟨a, h1, h2, steps_ids hs hi _ h3⟩
  · exact Or.inr (hd _ h)

theorem auxAtom_snd (c : CS) (cond : List Int) : (c.auxAtom cond).2 = c.next := rfl

theorem J.makeAtom {c : CS} {P defs} (hj : J c P defs) (cond : List Int) (named : Bool) (hb : ∀ l ∈ cond, l ≠ 0) :
    ∃ defs', J (c.makeAtom cond named).1 P defs' ∧ (∀ d ∈ defs, d ∈ defs') ∧ Rep (c.makeAtom cond named).1 defs' (c.makeAtom cond named).2 cond := by
  unfold CS.makeAtom
  split
  · rename_i hc
    simp only
    have hJ1 : J (c.mapAtom (cond.headD 0).natAbs).1 P defs := hj.of_rest (mapAtom_steps c _) (by simp)
    split
    · exact ⟨_, hJ1.auxAtom cond hb, fun d hd => by simp [hd], Or.inr (by simp [auxAtom_snd])⟩
    · have e := abs_updAtom (c.mapAtom (cond.headD 0).natAbs).1 (cond.headD 0).natAbs (fun x => { x with shown := named }) (fun _ => rfl)
      refine ⟨defs, hJ1.of (c' := (c.mapAtom (cond.headD 0).natAbs).1.updAtom (cond.headD 0).natAbs (fun x => { x with shown := named }))
        (by rw [e]; exact .refl _) rfl rfl rfl rfl, fun d hd => hd, Or.inl ?_⟩
      simp only [Bool.and_eq_true, beq_iff_eq, decide_eq_true_eq] at hc
      obtain ⟨l, hl⟩ : ∃ l, cond = [l] := by
        cases cond with
        | nil => simp at hc
        | cons l r => cases r with
          | nil => exact ⟨l, rfl⟩
          | cons _ _ => simp at hc
      subst hl
      simp only [List.headD_cons] at hc ⊢
      have hl0 := hb l (by simp)
      refine ⟨l.natAbs, by congr 1; omega, by omega, ?_⟩
      have e2 := abs_updAtom (c.mapAtom l.natAbs).1 l.natAbs (fun x => { x with shown := named }) (fun _ => rfl)
      rw [e2]
      exact mapAtom_mem c l.natAbs
  · exact ⟨_, hj.auxAtom cond hb, fun d hd => by simp [hd], Or.inr (by simp [auxAtom_snd])⟩

/-! ### output directives: which emitted atom carries which name -/
def outOf : Call → Option (List Nat × List Int)
  | .output n c => some (n, c)
  | _ => none
def outsOf (cs : List Call) : List (List Nat × List Int) := cs.filterMap outOf
/-- what a SOURCE call asks to be shown when its condition holds: the name of an output directive; for an acyclicity edge the helper name
    `_edge(s,t)` the converter shows it under -/
def edgeName (a b : Int) : List Nat := Convert.s "_edge(" ++ AspifOut.printInt a ++ [44] ++ AspifOut.printInt b ++ [41]
def srcOut : Call → Option (List Nat × List Int)
  | .output n c => some (n, c)
  | .acycEdge a b c => some (edgeName a b, c)
  | _ => none
def srcOuts (cs : List Call) : List (List Nat × List Int) := cs.filterMap srcOut
theorem srcOuts_append (a b : List Call) : srcOuts (a ++ b) = srcOuts a ++ srcOuts b := by simp [srcOuts]
theorem outsOf_append (a b : List Call) : outsOf (a ++ b) = outsOf a ++ outsOf b := by simp [outsOf]
theorem rest_output {c c' : CS} (h : rest c' = rest c) : c'.output = c.output := congrArg (·.2.2.2.2.2.2.2.1) h

theorem auxAtom_frame (c : CS) (cond : List Int) :
    (c.auxAtom cond).1.output = c.output ∧ outsOf (c.auxAtom cond).1.out = outsOf c.out := by
  unfold CS.auxAtom CS.emit
  simp only
  have h := rest_mapLits { c with next := c.next + 1, aux := c.aux ++ [c.next] } cond []
  refine ⟨(rest_output h).trans rfl, ?_⟩
  rw [outsOf_append, rest_out h]
  simp [outsOf, outOf]

theorem makeAtom_frame (c : CS) (cond : List Int) (named : Bool) :
    (c.makeAtom cond named).1.output = c.output ∧ outsOf (c.makeAtom cond named).1.out = outsOf c.out := by
  unfold CS.makeAtom
  split
  · simp only
    have h := rest_mapAtom c (cond.headD 0).natAbs
    split
    · have := auxAtom_frame (c.mapAtom (cond.headD 0).natAbs).1 cond
      exact ⟨this.1.trans (rest_output h), this.2.trans (by rw [rest_out h])⟩
    · exact ⟨rest_output h, by show outsOf (c.mapAtom (cond.headD 0).natAbs).1.out = _; rw [rest_out h]⟩
  · exact auxAtom_frame c cond

/-- the pending output table against the output directives `O` given in this step; `base` = what earlier steps have emitted
    (`[]` in a single step; Lemmas/ConvertStepsOut.lean uses it for several steps) -/
structure K (c : CS) (O : List (List Nat × List Int)) (defs : List (Nat × Body)) (base : List (List Nat × List Int) := [])
    (E : Nat → List Int → Prop := fun _ _ => False) : Prop where
  fwd : ∀ o ∈ O, ∃ n, (n, o.1) ∈ c.output ∧ Rep c defs n o.2
  bwd : ∀ p ∈ c.output, ∃ cond, (p.2, cond) ∈ O ∧ Rep c defs p.1 cond
  noout : outsOf c.out = base
  /-- atoms that stand for conditions since EARLIER steps keep doing so (`E n cond`: a relation fixed at the start of the step; empty in a single step) -/
  keep : ∀ n cond, E n cond → Rep c defs n cond

theorem K.of {c c' : CS} {O defs defs' base E} (hk : K c O defs base E) (hs : Steps (abs c) (abs c')) (hi : Inv (abs c)) (ho : c'.output = c.output)
    (hout : outsOf c'.out = outsOf c.out) (hd : ∀ d ∈ defs, d ∈ defs') : K c' O defs' base E := by
  refine ⟨?_, ?_, hout.trans hk.noout, fun n cond h => (hk.keep n cond h).mono hs hi hd⟩
  · intro o ho'
    obtain ⟨n, h1, h2⟩ := hk.fwd o ho'
    exact ⟨n, ho ▸ h1, h2.mono hs hi hd⟩
  · intro p hp
    obtain ⟨cond, h1, h2⟩ := hk.bwd p (ho ▸ hp)
    exact ⟨cond, h1, h2.mono hs hi hd⟩

/-- the calls of a step this file covers, with the interface contract on their arguments -/
def PlainOk : Call → Prop
  | .rule _ _ b => ∀ l ∈ b, l ≠ 0
  | .sumRule _ _ _ b => ∀ p ∈ b, p.1 ≠ 0 ∧ 0 ≤ p.2
  | .minimize _ ls => ∀ p ∈ ls, p.1 ≠ 0 ∧ p.2 ≠ I32MINc
  | .output _ cond => ∀ l ∈ cond, l ≠ 0
  | .external _ _ => True
  | .acycEdge _ _ cond => ∀ l ∈ cond, l ≠ 0
  | .heuristic _ _ _ _ cond => ∀ l ∈ cond, l ≠ 0
  | _ => False

/-- `if (!ext_) out_.…(…)`: a directive smodels cannot express is handed on unchanged unless the helper predicates are used -/
def pass (c : CS) (x : Call) : CS := if !c.ext then c.emit x else c

theorem apply_edge_eq (c : CS) (hf : c.fail = false) (a b : Int) (cond : List Int) :
    c.apply (.acycEdge a b cond) = ((pass c (.acycEdge a b cond)).makeAtom cond true).1.addOutput ((pass c (.acycEdge a b cond)).makeAtom cond true).2 (edgeName a b) false := by
  unfold CS.apply pass edgeName; simp only [hf, Bool.false_eq_true, ↓reduceIte]

theorem apply_heu_eq (c : CS) (hf : c.fail = false) (a t : Nat) (bias : Int) (prio : Nat) (cond : List Int) :
    c.apply (.heuristic a t bias prio cond) =
      { ((pass c (.heuristic a t bias prio cond)).makeAtom cond true).1 with
        heur := ((pass c (.heuristic a t bias prio cond)).makeAtom cond true).1.heur ++
          [{ atom := a, type := t, bias := bias, prio := prio, cond := ((pass c (.heuristic a t bias prio cond)).makeAtom cond true).2 }] } := by
  unfold CS.apply pass; simp only [hf, Bool.false_eq_true, ↓reduceIte]

theorem apply_frame_rule (c : CS) (hf : c.fail = false) (ht : Nat) (head : List Nat) (body : List Int) :
    (c.apply (.rule ht head body)).output = c.output ∧ outsOf (c.apply (.rule ht head body)).out = outsOf c.out := by
  unfold CS.apply
  simp only [hf, Bool.false_eq_true, ↓reduceIte]
  split
  · have h : rest ((c.mapHead head).1.mapLits body []).1 = rest c := by simp
    refine ⟨by show ((c.mapHead head).1.mapLits body []).1.output = _; exact rest_output h, ?_⟩
    simp only [CS.emit]
    rw [outsOf_append, rest_out h]; simp [outsOf, outOf]
  · exact ⟨rfl, rfl⟩

theorem apply_frame_sum (c : CS) (hf : c.fail = false) (ht : Nat) (head : List Nat) (bound : Int) (body : List (Int × Int)) :
    (c.apply (.sumRule ht head bound body)).output = c.output ∧ outsOf (c.apply (.sumRule ht head bound body)).out = outsOf c.out := by
  unfold CS.apply
  simp only [hf, Bool.false_eq_true, ↓reduceIte]
  split
  · have h : rest ((c.mapHead head).1.mapWLits body []).1 = rest c := by simp
    split
    · refine ⟨by show ((c.mapHead head).1.mapWLits body []).1.output = _; exact rest_output h, ?_⟩
      simp only [CS.emit]
      rw [outsOf_append, rest_out h]; simp [outsOf, outOf]
    · refine ⟨by show ((c.mapHead head).1.mapWLits body []).1.output = _; exact rest_output h, ?_⟩
      simp only [CS.emit]
      rw [outsOf_append, outsOf_append, rest_out h]; simp [outsOf, outOf]
  · exact ⟨rfl, rfl⟩

/-- showing the atom of a condition under a name (output directives; the helper name of an edge) -/
theorem out_like {c : CS} {P O defs base E} (hj : J c P defs) (hk : K c O defs base E) (str : List Nat) (cond : List Int) (hx : ∀ l ∈ cond, l ≠ 0) (hash : Bool) :
    ∃ defs', J ((c.makeAtom cond true).1.addOutput (c.makeAtom cond true).2 str hash) P defs' ∧
      K ((c.makeAtom cond true).1.addOutput (c.makeAtom cond true).2 str hash) (O ++ [(str, cond)]) defs' base E := by
  obtain ⟨defs', hJ, hsub, hrep⟩ := hj.makeAtom cond true hx
  have hfr := makeAtom_frame c cond true
  refine ⟨defs', hJ.of (by simp; exact .refl _) rfl rfl rfl rfl, ?_⟩
  have hs := makeAtom_steps c cond true
  have hk1 : K (c.makeAtom cond true).1 O defs' base E := hk.of hs hj.inv hfr.1 hfr.2 hsub
  refine ⟨?_, ?_, hk1.noout, fun n cd h => hk1.keep n cd h⟩
  · intro o ho
    rcases List.mem_append.mp ho with h | h
    · obtain ⟨n, h1, h2⟩ := hk1.fwd o h
      exact ⟨n, by simp [CS.addOutput, h1], h2⟩
    · simp only [List.mem_singleton] at h
      subst h
      exact ⟨(c.makeAtom cond true).2, by simp [CS.addOutput], hrep⟩
  · intro p hp
    simp only [CS.addOutput, List.mem_append, List.mem_singleton] at hp
    rcases hp with h | h
    · obtain ⟨cd, h1, h2⟩ := hk1.bwd p h
      exact ⟨cd, by simp [h1], h2⟩
    · subst h
      exact ⟨cond, by simp, hrep⟩

theorem J.through {c : CS} {P defs} (hj : J c P defs) (x : Call) (hx : inRule x = none) : J (pass c x) P defs := by
  unfold pass; split
  · exact hj.emit x hx
  · exact hj

theorem K.through {c : CS} {O defs base E} (hk : K c O defs base E) (hi : Inv (abs c)) (x : Call) (hx : outOf x = none) : K (pass c x) O defs base E := by
  unfold pass; split
  · exact hk.of (.refl _) hi rfl (by simp [CS.emit, outsOf_append, outsOf, hx]) (fun d hd => hd)
  · exact hk

theorem apply_plain {c : CS} {P O defs base E} (hj : J c P defs) (hk : K c O defs base E) (x : Call) (hx : PlainOk x) :
    ∃ defs', J (c.apply x) (P ++ (rulesOf [x]).filter kept) defs' ∧ K (c.apply x) (O ++ srcOuts [x]) defs' base E := by
  cases x with
  | rule ht head body =>
    have hf := apply_frame_rule c hj.nofail ht head body
    refine ⟨defs, apply_rule hj ht head body hx, ?_⟩
    have : srcOuts [Call.rule ht head body] = [] := rfl
    rw [this, List.append_nil]
    exact hk.of (apply_steps c _) hj.inv hf.1 hf.2 (fun d hd => hd)
  | sumRule ht head bound body =>
    have hf := apply_frame_sum c hj.nofail ht head bound body
    obtain ⟨defs', h1, h2⟩ := apply_sumRule hj ht head bound body hx
    refine ⟨defs', h1, ?_⟩
    have : srcOuts [Call.sumRule ht head bound body] = [] := rfl
    rw [this, List.append_nil]
    exact hk.of (apply_steps c _) hj.inv hf.1 hf.2 h2
  | minimize prio lits =>
    have hany : lits.any (fun p => p.2 == I32MINc) = false := by
      rw [List.any_eq_false]; intro p hp; simpa using (hx p hp).2
    have e1 : (rulesOf [Call.minimize prio lits]).filter kept = [] := rfl
    have e2 : srcOuts [Call.minimize prio lits] = [] := rfl
    rw [e1, e2, List.append_nil, List.append_nil]
    unfold CS.apply
    simp only [hj.nofail, Bool.false_eq_true, ↓reduceIte, hany]
    exact ⟨defs, hj.of (.refl _) (by simp [hj.nofail]) rfl rfl rfl, hk.of (.refl _) hj.inv rfl rfl (fun d hd => hd)⟩
  | output str cond =>
    have e1 : (rulesOf [Call.output str cond]).filter kept = [] := rfl
    have e2 : srcOuts [Call.output str cond] = [(str, cond)] := rfl
    rw [e1, e2, List.append_nil]
    unfold CS.apply
    simp only [hj.nofail, Bool.false_eq_true, ↓reduceIte]
    exact out_like hj hk str cond hx true
  | acycEdge a b cond =>
    have e1 : (rulesOf [Call.acycEdge a b cond]).filter kept = [] := rfl
    have e2 : srcOuts [Call.acycEdge a b cond] = [(edgeName a b, cond)] := rfl
    rw [e1, e2, List.append_nil, apply_edge_eq c hj.nofail]
    exact out_like (hj.through _ rfl) (hk.through hj.inv _ rfl) (edgeName a b) cond hx false
  | heuristic a t bias prio cond =>
    have e1 : (rulesOf [Call.heuristic a t bias prio cond]).filter kept = [] := rfl
    have e2 : srcOuts [Call.heuristic a t bias prio cond] = [] := rfl
    rw [e1, e2, List.append_nil, List.append_nil, apply_heu_eq c hj.nofail]
    have hj1 := hj.through (.heuristic a t bias prio cond) rfl
    have hk1 := hk.through hj.inv (.heuristic a t bias prio cond) rfl
    obtain ⟨defs', hJ, hsub, _⟩ := hj1.makeAtom cond true hx
    have hfr := makeAtom_frame (pass c (.heuristic a t bias prio cond)) cond true
    have hs := makeAtom_steps (pass c (.heuristic a t bias prio cond)) cond true
    exact ⟨defs', hJ.of' (.refl _) rfl rfl rfl, (hk1.of hs hj1.inv hfr.1 hfr.2 hsub).of (.refl _) hJ.inv rfl rfl (fun d hd => hd)⟩
  | external a v =>
    have e1 : (rulesOf [Call.external a v]).filter kept = [] := rfl
    have e2 : srcOuts [Call.external a v] = [] := rfl
    rw [e1, e2, List.append_nil, List.append_nil]
    have hs := apply_steps c (.external a v)
    have hfr : (c.apply (.external a v)).fail = false ∧ (c.apply (.external a v)).heur = c.heur ∧ (c.apply (.external a v)).aux = c.aux ∧
        (c.apply (.external a v)).out = c.out ∧ (c.apply (.external a v)).output = c.output := by
      have h := rest_mapAtom c a
      unfold CS.apply
      simp only [hj.nofail, Bool.false_eq_true, ↓reduceIte]
      split
      · refine ⟨?_, ?_, ?_, ?_, ?_⟩
        · show (c.mapAtom a).1.fail = false; exact (rest_fail h).trans hj.nofail
        · show (c.mapAtom a).1.heur = c.heur; exact congrArg (·.2.2.2.2.2.1) h
        · show (c.mapAtom a).1.aux = c.aux; exact rest_aux h
        · show (c.mapAtom a).1.out = c.out; exact rest_out h
        · show (c.mapAtom a).1.output = c.output; exact rest_output h
      · exact ⟨(rest_fail h).trans hj.nofail, congrArg (·.2.2.2.2.2.1) h, rest_aux h, rest_out h, rest_output h⟩
    exact ⟨defs, hj.of hs (hfr.1.trans hj.nofail.symm) hfr.2.1 hfr.2.2.1 (by rw [hfr.2.2.2.1]),
      hk.of hs hj.inv hfr.2.2.2.2 (by rw [hfr.2.2.2.1]) (fun d hd => hd)⟩
  | _ => exact absurd hx (by simp [PlainOk])

theorem run_plain {c : CS} {P O defs base E} (hj : J c P defs) (hk : K c O defs base E) (ds : List Call) (hx : ∀ d ∈ ds, PlainOk d) :
    ∃ defs', J (ds.foldl CS.apply c) (P ++ (rulesOf ds).filter kept) defs' ∧ K (ds.foldl CS.apply c) (O ++ srcOuts ds) defs' base E := by
  induction ds generalizing c P O defs with
  | nil => exact ⟨defs, by simpa [rulesOf] using hj, by simpa [srcOuts] using hk⟩
  | cons d r ih =>
    obtain ⟨defs1, h1, k1⟩ := apply_plain hj hk d (hx d (by simp))
    obtain ⟨defs2, h2, k2⟩ := ih h1 k1 (fun e he => hx e (by simp [he]))
    refine ⟨defs2, ?_, ?_⟩
    · have : rulesOf (d :: r) = rulesOf [d] ++ rulesOf r := by rw [← rulesOf_append]; rfl
      rw [this, List.filter_append, ← List.append_assoc]
      exact h2
    · have : srcOuts (d :: r) = srcOuts [d] ++ srcOuts r := by rw [← srcOuts_append]; rfl
      rw [this, ← List.append_assoc]
      exact k2

end PotasscoVerif.C02
