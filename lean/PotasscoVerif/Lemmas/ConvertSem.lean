/-
  The converter model (Model/Convert.lean) performs the abstract transformation of Lemmas/AspTrans.lean:
  for a step of rules, weight rules, minimize and output directives, the rules it emits are a translation
  (`Asp.Trans`) of the rules it was given, under its own atom map, with one defining rule per auxiliary atom.
-/
import PotasscoVerif.Props.C02
import PotasscoVerif.Lemmas.AspTrans
import PotasscoVerif.Spec.AspCalls
namespace PotasscoVerif.C02
open PotasscoVerif PotasscoVerif.Convert PotasscoVerif.Asp

/-! ### what the mapping helpers leave alone -/
/-- everything of the state except the atom table and the counter -/
def rest (c : CS) := (c.out, c.fail, c.ext, c.minimize, c.externs, c.heur, c.symTab, c.output, c.aux)

@[simp] theorem rest_mapAtom (c : CS) (a : Nat) : rest (c.mapAtom a).1 = rest c := by unfold CS.mapAtom; split <;> rfl
@[simp] theorem rest_updAtom (c : CS) (a : Nat) (f : CAtom → CAtom) : rest (c.updAtom a f) = rest c := rfl
@[simp] theorem rest_mapLit (c : CS) (l : Int) : rest (c.mapLit l).1 = rest c := rest_mapAtom c _
@[simp] theorem rest_mapLits (c : CS) (ls : List Int) (acc : List Int) : rest (c.mapLits ls acc).1 = rest c := by
  induction ls generalizing c acc with
  | nil => rfl
  | cons l r ih => simp only [CS.mapLits, ih, rest_mapLit]
@[simp] theorem rest_mapWLits (c : CS) (ls : List (Int × Int)) (acc : List (Int × Int)) : rest (c.mapWLits ls acc).1 = rest c := by
  induction ls generalizing c acc with
  | nil => rfl
  | cons l r ih => simp only [CS.mapWLits, ih, rest_mapLit]
@[simp] theorem rest_mapHeadAtoms (c : CS) (h : List Nat) (acc : List Nat) : rest (c.mapHeadAtoms h acc).1 = rest c := by
  induction h generalizing c acc with
  | nil => rfl
  | cons a r ih => simp only [CS.mapHeadAtoms, ih, rest_updAtom, rest_mapAtom]
@[simp] theorem rest_mapHead (c : CS) (h : List Nat) : rest (c.mapHead h).1 = rest c := by simp [CS.mapHead]

theorem rest_out {c c' : CS} (h : rest c' = rest c) : c'.out = c.out := congrArg (·.1) h
theorem rest_fail {c c' : CS} (h : rest c' = rest c) : c'.fail = c.fail := congrArg (·.2.1) h
theorem rest_aux {c c' : CS} (h : rest c' = rest c) : c'.aux = c.aux := congrArg (·.2.2.2.2.2.2.2.2) h

/-! ### the values the mapping helpers return, in terms of any map that agrees with the resulting state -/
def domOf (c : CS) : List Nat := (abs c).ids.map (·.1)

/-- `m` gives every mapped atom its image -/
def Agree (c : CS) (m : Nat → Nat) : Prop := ∀ p ∈ (abs c).ids, m p.1 = p.2

theorem steps_ids {c c' : CS} (h : Steps (abs c) (abs c')) (hi : Inv (abs c)) : ∀ p ∈ (abs c).ids, p ∈ (abs c').ids :=
  (steps_inv h hi).2.2.1

theorem steps_inv' {c c' : CS} (h : Steps (abs c) (abs c')) (hi : Inv (abs c)) : Inv (abs c') := (steps_inv h hi).1

theorem agree_back {c c' : CS} (h : Steps (abs c) (abs c')) (hi : Inv (abs c)) {m : Nat → Nat} (ha : Agree c' m) : Agree c m :=
  fun p hp => ha p (steps_ids h hi p hp)

theorem dom_mono {c c' : CS} (h : Steps (abs c) (abs c')) (hi : Inv (abs c)) : ∀ a ∈ domOf c, a ∈ domOf c' := by
  intro a ha
  simp only [domOf, List.mem_map] at ha ⊢
  obtain ⟨p, hp, rfl⟩ := ha
  exact ⟨p, steps_ids h hi p hp, rfl⟩

theorem mapAtom_mem (c : CS) (a : Nat) : (a, (c.mapAtom a).2.smId) ∈ (abs (c.mapAtom a).1).ids := by
  unfold CS.mapAtom
  cases h : c.find a with
  | some x => exact img_mem c a x.smId (by simp [img, h])
  | none => simp [abs]

theorem mapLit_val (c : CS) (l : Int) (m : Nat → Nat) (ha : Agree (c.mapLit l).1 m) : (c.mapLit l).2 = renLit m l := by
  have := ha _ (mapAtom_mem c l.natAbs)
  simp only at this
  unfold CS.mapLit renLit
  simp only [this]

theorem mapLits_val (c : CS) (hi : Inv (abs c)) (ls acc : List Int) (m : Nat → Nat) (ha : Agree (c.mapLits ls acc).1 m) :
    (c.mapLits ls acc).2 = acc ++ ls.map (renLit m) := by
  induction ls generalizing c acc with
  | nil => simp [CS.mapLits]
  | cons l r ih =>
    simp only [CS.mapLits] at ha ⊢
    have hi1 := steps_inv' (mapLit_steps c l) hi
    rw [ih _ hi1 _ ha]
    have := mapLit_val c l m (agree_back (mapLits_steps _ r _) hi1 ha)
    rw [this]; simp

theorem mapWLits_val (c : CS) (hi : Inv (abs c)) (ls acc : List (Int × Int)) (m : Nat → Nat) (ha : Agree (c.mapWLits ls acc).1 m) :
    (c.mapWLits ls acc).2 = acc ++ ls.map (fun p => (renLit m p.1, p.2)) := by
  induction ls generalizing c acc with
  | nil => simp [CS.mapWLits]
  | cons l r ih =>
    simp only [CS.mapWLits] at ha ⊢
    have hi1 := steps_inv' (mapLit_steps c l.1) hi
    rw [ih _ hi1 _ ha]
    have := mapLit_val c l.1 m (agree_back (mapWLits_steps _ r _) hi1 ha)
    rw [this]; simp

theorem mapHeadAtoms_val (c : CS) (hi : Inv (abs c)) (h acc : List Nat) (m : Nat → Nat) (ha : Agree (c.mapHeadAtoms h acc).1 m) :
    (c.mapHeadAtoms h acc).2 = acc ++ h.map m := by
  induction h generalizing c acc with
  | nil => simp [CS.mapHeadAtoms]
  | cons a r ih =>
    simp only [CS.mapHeadAtoms] at ha ⊢
    have e := abs_updAtom (c.mapAtom a).1 a (fun x => { x with head := true }) (fun _ => rfl)
    have hi1 : Inv (abs ((c.mapAtom a).1.updAtom a (fun x => { x with head := true }))) := by
      rw [e]; exact steps_inv' (mapAtom_steps c a) hi
    rw [ih _ hi1 _ ha]
    have hag := agree_back (mapHeadAtoms_steps _ r _) hi1 ha
    unfold Agree at hag
    rw [e] at hag
    have := hag _ (mapAtom_mem c a)
    simp only at this
    rw [← this]; simp

theorem mapHead_val (c : CS) (hi : Inv (abs c)) (h : List Nat) (m : Nat → Nat) (ha : Agree (c.mapHead h).1 m) :
    (c.mapHead h).2 = renHead m h := by
  unfold CS.mapHead at ha ⊢
  simp only at ha ⊢
  rw [mapHeadAtoms_val c hi h [] m ha]
  unfold renHead
  cases h <;> simp

/-! ### the atoms the helpers were given are mapped afterwards -/
theorem mapAtom_dom (c : CS) (a : Nat) : a ∈ domOf (c.mapAtom a).1 := by
  simp only [domOf, List.mem_map]
  exact ⟨_, mapAtom_mem c a, rfl⟩

theorem mapLits_dom (c : CS) (hi : Inv (abs c)) (ls acc : List Int) : ∀ l ∈ ls, l.natAbs ∈ domOf (c.mapLits ls acc).1 := by
  induction ls generalizing c acc with
  | nil => intro l h; cases h
  | cons x r ih =>
    intro l hl
    simp only [CS.mapLits]
    have hi1 := steps_inv' (mapLit_steps c x) hi
    rcases List.mem_cons.mp hl with h | h
    · subst h
      exact dom_mono (mapLits_steps _ r _) hi1 _ (mapAtom_dom c _)
    · exact ih _ hi1 _ l h

theorem mapWLits_dom (c : CS) (hi : Inv (abs c)) (ls acc : List (Int × Int)) : ∀ p ∈ ls, p.1.natAbs ∈ domOf (c.mapWLits ls acc).1 := by
  induction ls generalizing c acc with
  | nil => intro l h; cases h
  | cons x r ih =>
    intro l hl
    simp only [CS.mapWLits]
    have hi1 := steps_inv' (mapLit_steps c x.1) hi
    rcases List.mem_cons.mp hl with h | h
    · subst h
      exact dom_mono (mapWLits_steps _ r _) hi1 _ (mapAtom_dom c _)
    · exact ih _ hi1 _ l h

theorem mapHeadAtoms_dom (c : CS) (hi : Inv (abs c)) (h acc : List Nat) : ∀ a ∈ h, a ∈ domOf (c.mapHeadAtoms h acc).1 := by
  induction h generalizing c acc with
  | nil => intro l h; cases h
  | cons x r ih =>
    intro a ha
    simp only [CS.mapHeadAtoms]
    have e := abs_updAtom (c.mapAtom x).1 x (fun y => { y with head := true }) (fun _ => rfl)
    have hi1 : Inv (abs ((c.mapAtom x).1.updAtom x (fun y => { y with head := true }))) := by
      rw [e]; exact steps_inv' (mapAtom_steps c x) hi
    rcases List.mem_cons.mp ha with h | h
    · subst h
      apply dom_mono (mapHeadAtoms_steps _ r _) hi1
      unfold domOf; rw [e]; exact mapAtom_dom c _
    · exact ih _ hi1 _ a h

theorem mapHead_dom (c : CS) (hi : Inv (abs c)) (h : List Nat) : ∀ a ∈ h, a ∈ domOf (c.mapHead h).1 :=
  mapHeadAtoms_dom c hi h []

/-! ### the rules in a call list (`inRule`, `rulesOf`: Spec/AspCalls.lean) -/

theorem rulesOf_append (a b : List Call) : rulesOf (a ++ b) = rulesOf a ++ rulesOf b := by simp [rulesOf]

/-! ### the translation relation without its side conditions, and how it grows -/
structure TS (m : Nat → Nat) (defs : List (Nat × Body)) (P P' : List Rule) : Prop where
  s1 : ∀ r' ∈ P', (∃ r ∈ P, r' = renRule m r) ∨ (∃ d ∈ defs, r' = defRule m d) ∨
        (∃ r ∈ P, ∃ n, (n, r.body) ∈ defs ∧ r' = useRule m r n)
  s2 : ∀ r ∈ P, (r.choice = true ∧ r.head = []) ∨ renRule m r ∈ P' ∨ ∃ n, (n, r.body) ∈ defs ∧ useRule m r n ∈ P'
  s3 : ∀ d ∈ defs, defRule m d ∈ P'

theorem TS.nil (m : Nat → Nat) : TS m [] [] [] := ⟨by simp, by simp, by simp⟩

theorem TS.snoc_direct {m defs P P'} (h : TS m defs P P') (r : Rule) : TS m defs (P ++ [r]) (P' ++ [renRule m r]) := by
  refine ⟨?_, ?_, ?_⟩
  · intro r' hr'
    rcases List.mem_append.mp hr' with hm | hm
    · rcases h.s1 r' hm with ⟨r0, h0, e⟩ | hd | ⟨r0, h0, n, hn, e⟩
      · exact Or.inl ⟨r0, by simp [h0], e⟩
      · exact Or.inr (Or.inl hd)
      · exact Or.inr (Or.inr ⟨r0, by simp [h0], n, hn, e⟩)
    · simp only [List.mem_singleton] at hm
      exact Or.inl ⟨r, by simp, hm⟩
  · intro r0 h0
    rcases List.mem_append.mp h0 with hm | hm
    · rcases h.s2 r0 hm with h1 | h1 | ⟨n, hn, h1⟩
      · exact Or.inl h1
      · exact Or.inr (Or.inl (by simp [h1]))
      · exact Or.inr (Or.inr ⟨n, hn, by simp [h1]⟩)
    · simp only [List.mem_singleton] at hm
      subst hm
      exact Or.inr (Or.inl (by simp))
  · intro d hd; have := h.s3 d hd; simp [this]

theorem TS.snoc_drop {m defs P P'} (h : TS m defs P P') (r : Rule) (hc : r.choice = true) (hh : r.head = []) : TS m defs (P ++ [r]) P' := by
  refine ⟨?_, ?_, h.s3⟩
  · intro r' hr'
    rcases h.s1 r' hr' with ⟨r0, h0, e⟩ | hd | ⟨r0, h0, n, hn, e⟩
    · exact Or.inl ⟨r0, by simp [h0], e⟩
    · exact Or.inr (Or.inl hd)
    · exact Or.inr (Or.inr ⟨r0, by simp [h0], n, hn, e⟩)
  · intro r0 h0
    rcases List.mem_append.mp h0 with hm | hm
    · exact h.s2 r0 hm
    · simp only [List.mem_singleton] at hm
      subst hm
      exact Or.inl ⟨hc, hh⟩

theorem TS.snoc_def {m defs P P'} (h : TS m defs P P') (d : Nat × Body) : TS m (defs ++ [d]) P (P' ++ [defRule m d]) := by
  refine ⟨?_, ?_, ?_⟩
  · intro r' hr'
    rcases List.mem_append.mp hr' with hm | hm
    · rcases h.s1 r' hm with h1 | ⟨d0, hd0, e⟩ | ⟨r0, h0, n, hn, e⟩
      · exact Or.inl h1
      · exact Or.inr (Or.inl ⟨d0, by simp [hd0], e⟩)
      · exact Or.inr (Or.inr ⟨r0, h0, n, by simp [hn], e⟩)
    · simp only [List.mem_singleton] at hm
      exact Or.inr (Or.inl ⟨d, by simp, hm⟩)
  · intro r0 h0
    rcases h.s2 r0 h0 with h1 | h1 | ⟨n, hn, h1⟩
    · exact Or.inl h1
    · exact Or.inr (Or.inl (by simp [h1]))
    · exact Or.inr (Or.inr ⟨n, by simp [hn], by simp [h1]⟩)
  · intro d0 hd0
    rcases List.mem_append.mp hd0 with hm | hm
    · have := h.s3 d0 hm; simp [this]
    · simp only [List.mem_singleton] at hm; subst hm; simp

theorem TS.snoc_split {m defs P P'} (h : TS m defs P P') (r : Rule) (n : Nat) :
    TS m (defs ++ [(n, r.body)]) (P ++ [r]) (P' ++ [defRule m (n, r.body), useRule m r n]) := by
  have h1 := h.snoc_def (n, r.body)
  refine ⟨?_, ?_, ?_⟩
  · intro r' hr'
    have : r' ∈ (P' ++ [defRule m (n, r.body)]) ∨ r' = useRule m r n := by
      simp only [List.mem_append, List.mem_cons, List.mem_singleton, List.not_mem_nil, or_false] at hr' ⊢
      rcases hr' with h | h | h
      · exact Or.inl (Or.inl h)
      · exact Or.inl (Or.inr h)
      · exact Or.inr h
    rcases this with hm | hm
    · rcases h1.s1 r' hm with ⟨r0, h0, e⟩ | hd | ⟨r0, h0, k, hk, e⟩
      · exact Or.inl ⟨r0, by simp [h0], e⟩
      · exact Or.inr (Or.inl hd)
      · exact Or.inr (Or.inr ⟨r0, by simp [h0], k, hk, e⟩)
    · exact Or.inr (Or.inr ⟨r, by simp, n, by simp, hm⟩)
  · intro r0 h0
    rcases List.mem_append.mp h0 with hm | hm
    · rcases h1.s2 r0 hm with h2 | h2 | ⟨k, hk, h2⟩
      · exact Or.inl h2
      · refine Or.inr (Or.inl ?_)
        simp only [List.mem_append, List.mem_singleton] at h2
        simp only [List.mem_append, List.mem_cons]
        rcases h2 with h2 | h2
        · exact Or.inl h2
        · exact Or.inr (Or.inl h2)
      · refine Or.inr (Or.inr ⟨k, hk, ?_⟩)
        simp only [List.mem_append, List.mem_singleton] at h2
        simp only [List.mem_append, List.mem_cons]
        rcases h2 with h2 | h2
        · exact Or.inl h2
        · exact Or.inr (Or.inl h2)
    · simp only [List.mem_singleton] at hm
      subst hm
      exact Or.inr (Or.inr ⟨n, by simp, by simp⟩)
  · intro d0 hd0
    have := h1.s3 d0 hd0
    simp only [List.mem_append, List.mem_singleton] at this
    simp only [List.mem_append, List.mem_cons]
    rcases this with h2 | h2
    · exact Or.inl h2
    · exact Or.inr (Or.inl h2)


/-! ### the invariant of a step -/
/-- a choice rule over no atoms says nothing; the converter drops it -/
def kept (r : Rule) : Bool := !(r.choice && r.head.isEmpty)

structure J (c : CS) (P : List Rule) (defs : List (Nat × Body)) : Prop where
  inv    : Inv (abs c)
  nofail : c.fail = false
  noext  : c.externs = []
  noheur : c.heur = []
  keys   : defs.map (·.1) = c.aux
  defsOk : ∀ d ∈ defs, d.2.Ok ∧ ∀ a ∈ d.2.atoms, a ∈ domOf c
  inOk   : ∀ r ∈ P, (∀ a ∈ r.head, a ∈ domOf c) ∧ (∀ a ∈ r.body.atoms, a ∈ domOf c) ∧ r.body.Ok
  tr     : ∀ m, Agree c m → TS m defs P (rulesOf c.out)

/-- the state moved on by mapping atoms only -/
theorem J.of {c c' : CS} {P defs} (hj : J c P defs) (hs : Steps (abs c) (abs c')) (hf : c'.fail = c.fail) (he : c'.externs = c.externs)
    (hh : c'.heur = c.heur) (hx : c'.aux = c.aux) (ho : rulesOf c'.out = rulesOf c.out) : J c' P defs := by
  refine ⟨steps_inv' hs hj.inv, hf ▸ hj.nofail, he ▸ hj.noext, hh ▸ hj.noheur, hx ▸ hj.keys, ?_, ?_, ?_⟩
  · intro d hd; exact ⟨(hj.defsOk d hd).1, fun a ha => dom_mono hs hj.inv a ((hj.defsOk d hd).2 a ha)⟩
  · intro r hr
    obtain ⟨h1, h2, h3⟩ := hj.inOk r hr
    exact ⟨fun a ha => dom_mono hs hj.inv a (h1 a ha), fun a ha => dom_mono hs hj.inv a (h2 a ha), h3⟩
  · intro m ha; rw [ho]; exact hj.tr m (agree_back hs hj.inv ha)

theorem J.of_rest {c c' : CS} {P defs} (hj : J c P defs) (hs : Steps (abs c) (abs c')) (hr : rest c' = rest c) : J c' P defs :=
  hj.of hs (rest_fail hr) (congrArg (·.2.2.2.2.1) hr) (congrArg (·.2.2.2.2.2.1) hr) (rest_aux hr) (by rw [rest_out hr])

theorem J.emit {c : CS} {P defs} (hj : J c P defs) (x : Call) (hx : inRule x = none) : J (c.emit x) P defs :=
  hj.of (.refl _) rfl rfl rfl rfl (by simp [CS.emit, rulesOf_append, rulesOf, hx])

theorem J.foldl {β : Type} {P defs} (f : CS → β → CS) (hf : ∀ c x, J c P defs → J (f c x) P defs) (l : List β) (c : CS) (hj : J c P defs) :
    J (l.foldl f c) P defs := by
  induction l generalizing c with
  | nil => exact hj
  | cons x r ih => exact ih _ (hf c x hj)

theorem apply_rule {c : CS} {P defs} (hj : J c P defs) (ht : Nat) (head : List Nat) (body : List Int) (hb : ∀ l ∈ body, l ≠ 0) :
    J (c.apply (.rule ht head body)) (P ++ (rulesOf [.rule ht head body]).filter kept) defs := by
  have hr : rulesOf [.rule ht head body] = [⟨ht != 0, head, .normal body⟩] := rfl
  unfold CS.apply
  simp only [hj.nofail, Bool.false_eq_true, ↓reduceIte]
  split
  · rename_i hc
    have hk : kept ⟨ht != 0, head, .normal body⟩ = true := by
      unfold kept
      simp only [Bool.or_eq_true, Bool.not_eq_true', beq_iff_eq] at hc
      rcases hc with h | h
      · simp [h]
      · simp [h]
    rw [hr, List.filter_cons_of_pos hk, List.filter_nil]
    have hs1 := mapHead_steps c head
    have hi1 := steps_inv' hs1 hj.inv
    have hs2 := mapLits_steps (c.mapHead head).1 body []
    have hJ2 : J ((c.mapHead head).1.mapLits body []).1 P defs := hj.of_rest (hs1.trans hs2) (by simp)
    have hout : ((c.mapHead head).1.mapLits body []).1.out = c.out := rest_out (by simp)
    refine ⟨hJ2.inv, hJ2.nofail, hJ2.noext, hJ2.noheur, hJ2.keys, hJ2.defsOk, ?_, ?_⟩
    · intro r hrm
      rcases List.mem_append.mp hrm with h | h
      · exact hJ2.inOk r h
      · simp only [List.mem_singleton] at h
        subst h
        refine ⟨fun a ha => dom_mono hs2 hi1 a (mapHead_dom c hj.inv head a ha), ?_, hb⟩
        intro a ha
        simp only [Body.atoms, List.mem_map] at ha
        obtain ⟨l, hl, rfl⟩ := ha
        exact mapLits_dom _ hi1 body [] l hl
    · intro m ha
      have ha2 : Agree ((c.mapHead head).1.mapLits body []).1 m := ha
      have e1 := mapHead_val c hj.inv head m (agree_back hs2 hi1 ha2)
      have e2 := mapLits_val _ hi1 body [] m ha2
      have := (hJ2.tr m ha2).snoc_direct ⟨ht != 0, head, .normal body⟩
      simp only [CS.emit, rulesOf_append]
      have e3 : rulesOf [Call.rule ht (c.mapHead head).2 ((c.mapHead head).1.mapLits body []).2]
          = [renRule m ⟨ht != 0, head, .normal body⟩] := by
        simp only [rulesOf, List.filterMap_cons, inRule, List.filterMap_nil, renRule, renBody, e1, e2, List.nil_append]
      rw [e3]
      exact this
  · rename_i hc
    have hk : kept ⟨ht != 0, head, .normal body⟩ = false := by
      unfold kept
      simp only [Bool.or_eq_true, Bool.not_eq_true', beq_iff_eq, not_or, Bool.not_eq_false] at hc
      simp [hc.1, hc.2]
    rw [hr, List.filter_cons_of_neg (by simp [hk]), List.filter_nil, List.append_nil]
    exact hj


theorem abs_newAux (c : CS) : abs { c with next := c.next + 1, aux := c.aux ++ [c.next] }
    = { abs c with next := (abs c).next + 1, aux := (abs c).aux ++ [(abs c).next] } := rfl

theorem apply_sumRule {c : CS} {P defs} (hj : J c P defs) (ht : Nat) (head : List Nat) (bound : Int) (body : List (Int × Int))
    (hb : ∀ p ∈ body, p.1 ≠ 0 ∧ 0 ≤ p.2) :
    ∃ defs', J (c.apply (.sumRule ht head bound body)) (P ++ (rulesOf [.sumRule ht head bound body]).filter kept) defs' ∧ (∀ d ∈ defs, d ∈ defs') := by
  have hr : rulesOf [.sumRule ht head bound body] = [⟨ht != 0, head, .sum bound body⟩] := rfl
  unfold CS.apply
  simp only [hj.nofail, Bool.false_eq_true, ↓reduceIte]
  split
  · rename_i hc
    have hk : kept ⟨ht != 0, head, .sum bound body⟩ = true := by
      unfold kept
      simp only [Bool.or_eq_true, Bool.not_eq_true', beq_iff_eq] at hc
      rcases hc with h | h
      · simp [h]
      · simp [h]
    rw [hr, List.filter_cons_of_pos hk, List.filter_nil]
    have hs1 := mapHead_steps c head
    have hi1 := steps_inv' hs1 hj.inv
    have hs2 := mapWLits_steps (c.mapHead head).1 body []
    have hJ2 : J ((c.mapHead head).1.mapWLits body []).1 P defs := hj.of_rest (hs1.trans hs2) (by simp)
    have hnew : (∀ a ∈ head, a ∈ domOf ((c.mapHead head).1.mapWLits body []).1) ∧
        (∀ a ∈ (Body.sum bound body).atoms, a ∈ domOf ((c.mapHead head).1.mapWLits body []).1) := by
      refine ⟨fun a ha => dom_mono hs2 hi1 a (mapHead_dom c hj.inv head a ha), ?_⟩
      intro a ha
      simp only [Body.atoms, List.mem_map] at ha
      obtain ⟨l, hl, rfl⟩ := ha
      exact mapWLits_dom _ hi1 body [] l hl
    split
    · -- written as it is
      refine ⟨defs, ⟨hJ2.inv, hJ2.nofail, hJ2.noext, hJ2.noheur, hJ2.keys, hJ2.defsOk, ?_, ?_⟩, fun d hd => hd⟩
      · intro r hrm
        rcases List.mem_append.mp hrm with h | h
        · exact hJ2.inOk r h
        · simp only [List.mem_singleton] at h
          subst h
          exact ⟨hnew.1, hnew.2, hb⟩
      · intro m ha
        have ha2 : Agree ((c.mapHead head).1.mapWLits body []).1 m := ha
        have e1 := mapHead_val c hj.inv head m (agree_back hs2 hi1 ha2)
        have e2 := mapWLits_val _ hi1 body [] m ha2
        have := (hJ2.tr m ha2).snoc_direct ⟨ht != 0, head, .sum bound body⟩
        simp only [CS.emit, rulesOf_append]
        have e3 : rulesOf [Call.sumRule ht (c.mapHead head).2 bound ((c.mapHead head).1.mapWLits body []).2]
            = [renRule m ⟨ht != 0, head, .sum bound body⟩] := by
          simp only [rulesOf, List.filterMap_cons, inRule, List.filterMap_nil, renRule, renBody, e1, e2, List.nil_append]
        rw [e3]
        exact this
    · -- through an auxiliary atom
      let c2 := ((c.mapHead head).1.mapWLits body []).1
      have hs3 : Steps (abs c2) (abs { c2 with next := c2.next + 1, aux := c2.aux ++ [c2.next] }) := newAux_steps c2
      refine ⟨defs ++ [(c2.next, .sum bound body)], ⟨steps_inv' hs3 hJ2.inv, hJ2.nofail, hJ2.noext, hJ2.noheur, ?_, ?_, ?_, ?_⟩, fun d hd => by simp [hd]⟩
      · simp only [List.map_append, List.map_cons, List.map_nil, hJ2.keys]; rfl
      · intro d hd
        rcases List.mem_append.mp hd with h | h
        · exact hJ2.defsOk d h
        · simp only [List.mem_singleton] at h
          subst h
          exact ⟨hb, hnew.2⟩
      · intro r hrm
        rcases List.mem_append.mp hrm with h | h
        · exact hJ2.inOk r h
        · simp only [List.mem_singleton] at h
          subst h
          exact ⟨hnew.1, hnew.2, hb⟩
      · intro m ha
        have ha2 : Agree c2 m := ha
        have e1 := mapHead_val c hj.inv head m (agree_back hs2 hi1 ha2)
        have e2 := mapWLits_val _ hi1 body [] m ha2
        have := (hJ2.tr m ha2).snoc_split ⟨ht != 0, head, .sum bound body⟩ c2.next
        simp only [CS.emit, rulesOf_append, List.append_assoc]
        have e3 : rulesOf [Call.sumRule 0 [c2.next] bound ((c.mapHead head).1.mapWLits body []).2] ++
            rulesOf [Call.rule ht (c.mapHead head).2 [(c2.next : Int)]]
            = [defRule m (c2.next, .sum bound body), useRule m ⟨ht != 0, head, .sum bound body⟩ c2.next] := by
          simp only [rulesOf, List.filterMap_cons, inRule, List.filterMap_nil, defRule, useRule, renBody, e1, e2, List.nil_append,
            List.cons_append]
          rfl
        rw [e3]
        exact this
  · rename_i hc
    have hk : kept ⟨ht != 0, head, .sum bound body⟩ = false := by
      unfold kept
      simp only [Bool.or_eq_true, Bool.not_eq_true', beq_iff_eq, not_or, Bool.not_eq_false] at hc
      simp [hc.1, hc.2]
    rw [hr, List.filter_cons_of_neg (by simp [hk]), List.filter_nil, List.append_nil]
    exact ⟨defs, hj, fun d hd => hd⟩

/-- `aux :- cond.`: one more auxiliary atom with its defining rule -/
theorem J.auxAtom {c : CS} {P defs} (hj : J c P defs) (cond : List Int) (hb : ∀ l ∈ cond, l ≠ 0) :
    J (c.auxAtom cond).1 P (defs ++ [(c.next, .normal cond)]) := by
  unfold CS.auxAtom
  simp only
  obtain ⟨c1, hc1⟩ : ∃ c1 : CS, c1 = { c with next := c.next + 1, aux := c.aux ++ [c.next] } := ⟨_, rfl⟩
  rw [← hc1]
  have hs1 : Steps (abs c) (abs c1) := by rw [hc1]; exact newAux_steps c
  have c1out : c1.out = c.out := by rw [hc1]
  have c1fail : c1.fail = c.fail := by rw [hc1]
  have c1ext : c1.externs = c.externs := by rw [hc1]
  have c1heur : c1.heur = c.heur := by rw [hc1]
  have c1aux : c1.aux = c.aux ++ [c.next] := by rw [hc1]
  have hi1 := steps_inv' hs1 hj.inv
  have hs2 := mapLits_steps c1 cond []
  have hrest : rest (c1.mapLits cond []).1 = rest c1 := by simp
  have hatoms : ∀ a ∈ (Body.normal cond).atoms, a ∈ domOf (c1.mapLits cond []).1 := by
    intro a ha
    simp only [Body.atoms, List.mem_map] at ha
    obtain ⟨l, hl, rfl⟩ := ha
    exact mapLits_dom c1 hi1 cond [] l hl
  refine ⟨steps_inv' hs2 hi1, ?_, ?_, ?_, ?_, ?_, ?_, ?_⟩
  · show (c1.mapLits cond []).1.fail = false
    rw [rest_fail hrest, c1fail]; exact hj.nofail
  · show (c1.mapLits cond []).1.externs = []
    have : (c1.mapLits cond []).1.externs = c1.externs := congrArg (·.2.2.2.2.1) hrest
    rw [this, c1ext]; exact hj.noext
  · show (c1.mapLits cond []).1.heur = []
    have : (c1.mapLits cond []).1.heur = c1.heur := congrArg (·.2.2.2.2.2.1) hrest
    rw [this, c1heur]; exact hj.noheur
  · show _ = (c1.mapLits cond []).1.aux
    rw [rest_aux hrest, c1aux]
    simp only [List.map_append, List.map_cons, List.map_nil, hj.keys]
  · intro d hd
    rcases List.mem_append.mp hd with h | h
    · exact ⟨(hj.defsOk d h).1, fun a ha => dom_mono (hs1.trans hs2) hj.inv a ((hj.defsOk d h).2 a ha)⟩
    · simp only [List.mem_singleton] at h
      subst h
      exact ⟨hb, hatoms⟩
  · intro r hr
    obtain ⟨h1, h2, h3⟩ := hj.inOk r hr
    exact ⟨fun a ha => dom_mono (hs1.trans hs2) hj.inv a (h1 a ha), fun a ha => dom_mono (hs1.trans hs2) hj.inv a (h2 a ha), h3⟩
  · intro m ha
    have ha2 : Agree (c1.mapLits cond []).1 m := ha
    have e2 := mapLits_val c1 hi1 cond [] m ha2
    have hold := hj.tr m (agree_back (hs1.trans hs2) hj.inv ha2)
    have hout : (c1.mapLits cond []).1.out = c.out := by rw [rest_out hrest, c1out]
    simp only [CS.emit, rulesOf_append, hout]
    have e3 : rulesOf [Call.rule 0 [c.next] (c1.mapLits cond []).2] = [defRule m (c.next, .normal cond)] := by
      simp only [rulesOf, List.filterMap_cons, inRule, List.filterMap_nil, defRule, renBody, e2, List.nil_append]
      rfl
    rw [e3]
    exact hold.snoc_def _

/-- the atom `n` stands for the condition `cond`: it is the image of the single positive literal, or an auxiliary
    atom defined by the condition -/
def Rep (c : CS) (defs : List (Nat × Body)) (n : Nat) (cond : List Int) : Prop :=
  (∃ a : Nat, cond = [(a : Int)] ∧ 0 < a ∧ (a, n) ∈ (abs c).ids) ∨ (n, Body.normal cond) ∈ defs

theorem Rep.mono {c c' : CS} {defs defs' : List (Nat × Body)} {n : Nat} {cond : List Int} (h : Rep c defs n cond)
    (hs : Steps (abs c) (abs c')) (hi : Inv (abs c)) (hd : ∀ d ∈ defs, d ∈ defs') : Rep c' defs' n cond := by
  rcases h with ⟨a, h1, h2, h3⟩ | h
  · exact Or.inl ⟨a, h1, h2, steps_ids hs hi _ h3⟩
  · exact Or.inr (hd _ h)

theorem auxAtom_snd (c : CS) (cond : List Int) : (c.auxAtom cond).2 = c.next := rfl

theorem J.makeAtom {c : CS} {P defs} (hj : J c P defs) (cond : List Int) (named : Bool) (hb : ∀ l ∈ cond, l ≠ 0) :
    ∃ defs', J (c.makeAtom cond named).1 P defs' ∧ (∀ d ∈ defs, d ∈ defs') ∧ Rep (c.makeAtom cond named).1 defs' (c.makeAtom cond named).2 cond := by
  unfold CS.makeAtom
  split
  · rename_i hc
    simp only
    have hJ1 : J (c.mapAtom (cond.headD 0).natAbs).1 P defs := hj.of_rest (mapAtom_steps c _) (by simp)
    split
    · exact ⟨_, hJ1.auxAtom cond hb, fun d hd => by simp [hd], Or.inr (by simp [auxAtom_snd])⟩
    · have e := abs_updAtom (c.mapAtom (cond.headD 0).natAbs).1 (cond.headD 0).natAbs (fun x => { x with shown := named }) (fun _ => rfl)
      refine ⟨defs, hJ1.of (c' := (c.mapAtom (cond.headD 0).natAbs).1.updAtom (cond.headD 0).natAbs (fun x => { x with shown := named }))
        (by rw [e]; exact .refl _) rfl rfl rfl rfl rfl, fun d hd => hd, Or.inl ?_⟩
      simp only [Bool.and_eq_true, beq_iff_eq, decide_eq_true_eq] at hc
      obtain ⟨l, hl⟩ : ∃ l, cond = [l] := by
        cases cond with
        | nil => simp at hc
        | cons l r => cases r with
          | nil => exact ⟨l, rfl⟩
          | cons _ _ => simp at hc
      subst hl
      simp only [List.headD_cons] at hc ⊢
      have hl0 := hb l (by simp)
      refine ⟨l.natAbs, by congr 1; omega, by omega, ?_⟩
      have e2 := abs_updAtom (c.mapAtom l.natAbs).1 l.natAbs (fun x => { x with shown := named }) (fun _ => rfl)
      rw [e2]
      exact mapAtom_mem c l.natAbs
  · exact ⟨_, hj.auxAtom cond hb, fun d hd => by simp [hd], Or.inr (by simp [auxAtom_snd])⟩

/-! ### output directives: which emitted atom carries which name -/
def outOf : Call → Option (List Nat × List Int)
  | .output n c => some (n, c)
  | _ => none
def outsOf (cs : List Call) : List (List Nat × List Int) := cs.filterMap outOf
theorem outsOf_append (a b : List Call) : outsOf (a ++ b) = outsOf a ++ outsOf b := by simp [outsOf]
theorem rest_output {c c' : CS} (h : rest c' = rest c) : c'.output = c.output := congrArg (·.2.2.2.2.2.2.2.1) h

theorem auxAtom_frame (c : CS) (cond : List Int) :
    (c.auxAtom cond).1.output = c.output ∧ outsOf (c.auxAtom cond).1.out = outsOf c.out := by
  unfold CS.auxAtom CS.emit
  simp only
  have h := rest_mapLits { c with next := c.next + 1, aux := c.aux ++ [c.next] } cond []
  refine ⟨(rest_output h).trans rfl, ?_⟩
  rw [outsOf_append, rest_out h]
  simp [outsOf, outOf]

theorem makeAtom_frame (c : CS) (cond : List Int) (named : Bool) :
    (c.makeAtom cond named).1.output = c.output ∧ outsOf (c.makeAtom cond named).1.out = outsOf c.out := by
  unfold CS.makeAtom
  split
  · simp only
    have h := rest_mapAtom c (cond.headD 0).natAbs
    split
    · have := auxAtom_frame (c.mapAtom (cond.headD 0).natAbs).1 cond
      exact ⟨this.1.trans (rest_output h), this.2.trans (by rw [rest_out h])⟩
    · exact ⟨rest_output h, by show outsOf (c.mapAtom (cond.headD 0).natAbs).1.out = _; rw [rest_out h]⟩
  · exact auxAtom_frame c cond

structure K (c : CS) (O : List (List Nat × List Int)) (defs : List (Nat × Body)) : Prop where
  fwd : ∀ o ∈ O, ∃ n, (n, o.1) ∈ c.output ∧ Rep c defs n o.2
  bwd : ∀ p ∈ c.output, ∃ cond, (p.2, cond) ∈ O ∧ Rep c defs p.1 cond
  noout : outsOf c.out = []

theorem K.of {c c' : CS} {O defs defs'} (hk : K c O defs) (hs : Steps (abs c) (abs c')) (hi : Inv (abs c)) (ho : c'.output = c.output)
    (hout : outsOf c'.out = outsOf c.out) (hd : ∀ d ∈ defs, d ∈ defs') : K c' O defs' := by
  refine ⟨?_, ?_, hout.trans hk.noout⟩
  · intro o ho'
    obtain ⟨n, h1, h2⟩ := hk.fwd o ho'
    exact ⟨n, ho ▸ h1, h2.mono hs hi hd⟩
  · intro p hp
    obtain ⟨cond, h1, h2⟩ := hk.bwd p (ho ▸ hp)
    exact ⟨cond, h1, h2.mono hs hi hd⟩

/-- the calls of a step this file covers, with the interface contract on their arguments -/
def PlainOk : Call → Prop
  | .rule _ _ b => ∀ l ∈ b, l ≠ 0
  | .sumRule _ _ _ b => ∀ p ∈ b, p.1 ≠ 0 ∧ 0 ≤ p.2
  | .minimize _ ls => ∀ p ∈ ls, p.1 ≠ 0 ∧ p.2 ≠ I32MINc
  | .output _ cond => ∀ l ∈ cond, l ≠ 0
  | _ => False

theorem apply_frame_rule (c : CS) (hf : c.fail = false) (ht : Nat) (head : List Nat) (body : List Int) :
    (c.apply (.rule ht head body)).output = c.output ∧ outsOf (c.apply (.rule ht head body)).out = outsOf c.out := by
  unfold CS.apply
  simp only [hf, Bool.false_eq_true, ↓reduceIte]
  split
  · have h : rest ((c.mapHead head).1.mapLits body []).1 = rest c := by simp
    refine ⟨by show ((c.mapHead head).1.mapLits body []).1.output = _; exact rest_output h, ?_⟩
    simp only [CS.emit]
    rw [outsOf_append, rest_out h]; simp [outsOf, outOf]
  · exact ⟨rfl, rfl⟩

theorem apply_frame_sum (c : CS) (hf : c.fail = false) (ht : Nat) (head : List Nat) (bound : Int) (body : List (Int × Int)) :
    (c.apply (.sumRule ht head bound body)).output = c.output ∧ outsOf (c.apply (.sumRule ht head bound body)).out = outsOf c.out := by
  unfold CS.apply
  simp only [hf, Bool.false_eq_true, ↓reduceIte]
  split
  · have h : rest ((c.mapHead head).1.mapWLits body []).1 = rest c := by simp
    split
    · refine ⟨by show ((c.mapHead head).1.mapWLits body []).1.output = _; exact rest_output h, ?_⟩
      simp only [CS.emit]
      rw [outsOf_append, rest_out h]; simp [outsOf, outOf]
    · refine ⟨by show ((c.mapHead head).1.mapWLits body []).1.output = _; exact rest_output h, ?_⟩
      simp only [CS.emit]
      rw [outsOf_append, outsOf_append, rest_out h]; simp [outsOf, outOf]
  · exact ⟨rfl, rfl⟩

theorem apply_plain {c : CS} {P O defs} (hj : J c P defs) (hk : K c O defs) (x : Call) (hx : PlainOk x) :
    ∃ defs', J (c.apply x) (P ++ (rulesOf [x]).filter kept) defs' ∧ K (c.apply x) (O ++ outsOf [x]) defs' := by
  cases x with
  | rule ht head body =>
    have hf := apply_frame_rule c hj.nofail ht head body
    refine ⟨defs, apply_rule hj ht head body hx, ?_⟩
    have : outsOf [Call.rule ht head body] = [] := rfl
    rw [this, List.append_nil]
    exact hk.of (apply_steps c _) hj.inv hf.1 hf.2 (fun d hd => hd)
  | sumRule ht head bound body =>
    have hf := apply_frame_sum c hj.nofail ht head bound body
    obtain ⟨defs', h1, h2⟩ := apply_sumRule hj ht head bound body hx
    refine ⟨defs', h1, ?_⟩
    have : outsOf [Call.sumRule ht head bound body] = [] := rfl
    rw [this, List.append_nil]
    exact hk.of (apply_steps c _) hj.inv hf.1 hf.2 h2
  | minimize prio lits =>
    have hany : lits.any (fun p => p.2 == I32MINc) = false := by
      rw [List.any_eq_false]; intro p hp; simpa using (hx p hp).2
    have e1 : (rulesOf [Call.minimize prio lits]).filter kept = [] := rfl
    have e2 : outsOf [Call.minimize prio lits] = [] := rfl
    rw [e1, e2, List.append_nil, List.append_nil]
    unfold CS.apply
    simp only [hj.nofail, Bool.false_eq_true, ↓reduceIte, hany]
    exact ⟨defs, hj.of (.refl _) (by simp [hj.nofail]) rfl rfl rfl rfl, hk.of (.refl _) hj.inv rfl rfl (fun d hd => hd)⟩
  | output str cond =>
    obtain ⟨defs', hJ, hsub, hrep⟩ := hj.makeAtom cond true hx
    have hfr := makeAtom_frame c cond true
    have e1 : (rulesOf [Call.output str cond]).filter kept = [] := rfl
    have e2 : outsOf [Call.output str cond] = [(str, cond)] := rfl
    rw [e1, e2, List.append_nil]
    unfold CS.apply
    simp only [hj.nofail, Bool.false_eq_true, ↓reduceIte]
    refine ⟨defs', hJ.of (by simp; exact .refl _) rfl rfl rfl rfl rfl, ?_⟩
    have hs := makeAtom_steps c cond true
    have hk1 : K (c.makeAtom cond true).1 O defs' := hk.of hs hj.inv hfr.1 hfr.2 hsub
    refine ⟨?_, ?_, hk1.noout⟩
    · intro o ho
      rcases List.mem_append.mp ho with h | h
      · obtain ⟨n, h1, h2⟩ := hk1.fwd o h
        exact ⟨n, by simp [CS.addOutput, h1], h2⟩
      · simp only [List.mem_singleton] at h
        subst h
        exact ⟨(c.makeAtom cond true).2, by simp [CS.addOutput], hrep⟩
    · intro p hp
      simp only [CS.addOutput, List.mem_append, List.mem_singleton] at hp
      rcases hp with h | h
      · obtain ⟨cd, h1, h2⟩ := hk1.bwd p h
        exact ⟨cd, by simp [h1], h2⟩
      · subst h
        exact ⟨cond, by simp, hrep⟩
  | _ => exact absurd hx (by simp [PlainOk])

theorem run_plain {c : CS} {P O defs} (hj : J c P defs) (hk : K c O defs) (ds : List Call) (hx : ∀ d ∈ ds, PlainOk d) :
    ∃ defs', J (ds.foldl CS.apply c) (P ++ (rulesOf ds).filter kept) defs' ∧ K (ds.foldl CS.apply c) (O ++ outsOf ds) defs' := by
  induction ds generalizing c P O defs with
  | nil => exact ⟨defs, by simpa [rulesOf] using hj, by simpa [outsOf] using hk⟩
  | cons d r ih =>
    obtain ⟨defs1, h1, k1⟩ := apply_plain hj hk d (hx d (by simp))
    obtain ⟨defs2, h2, k2⟩ := ih h1 k1 (fun e he => hx e (by simp [he]))
    refine ⟨defs2, ?_, ?_⟩
    · have : rulesOf (d :: r) = rulesOf [d] ++ rulesOf r := by rw [← rulesOf_append]; rfl
      rw [this, List.filter_append, ← List.append_assoc]
      exact h2
    · have : outsOf (d :: r) = outsOf [d] ++ outsOf r := by rw [← outsOf_append]; rfl
      rw [this, ← List.append_assoc]
      exact k2

/-! ### a whole step -/
theorem J.init (ext : Bool) : J ({ ext := ext } : CS) [] [] :=
  ⟨inv_init, rfl, rfl, rfl, rfl, by simp, by simp, fun m _ => TS.nil m⟩

theorem J.flush {c : CS} {P defs} (hj : J c P defs) : J c.flush P defs := by
  unfold CS.flush
  have h1 : J c.flushMinimize P defs := by
    unfold CS.flushMinimize
    apply J.foldl _ _ _ _ hj
    intro c pl hc
    exact (hc.of_rest (mapWLits_steps c pl.2 []) (by simp)).emit _ rfl
  have h2 : J c.flushMinimize.flushExternal P defs := by
    unfold CS.flushExternal
    rw [h1.noext]
    simpa using h1
  have h3 : J c.flushMinimize.flushExternal.flushHeuristic P defs := by
    unfold CS.flushHeuristic
    rw [h2.noheur]
    simpa using h2
  have h4 : J c.flushMinimize.flushExternal.flushHeuristic.flushSymbols P defs := by
    unfold CS.flushSymbols
    apply J.foldl _ _ _ _ h3
    intro c p hc
    exact hc.emit _ rfl
  have h5 := h4.emit (.assume [-1]) rfl
  exact h5.of (.refl _) rfl rfl rfl rfl rfl |>.of (.refl _) rfl rfl rfl rfl rfl
    |> fun h => ⟨h.inv, h.nofail, rfl, rfl, h.keys, h.defsOk, h.inOk, h.tr⟩

/-- the calls of one program step -/
def stepCalls (inc : Bool) (ds : List Call) : List Call := [.initProgram inc, .beginStep] ++ ds ++ [.endStep]

theorem apply_init (c : CS) (h : c.fail = false) (inc : Bool) : c.apply (.initProgram inc) = c.emit (.initProgram inc) := by
  unfold CS.apply; simp [h]
theorem apply_begin (c : CS) (h : c.fail = false) : c.apply .beginStep = c.emit .beginStep := by
  unfold CS.apply; simp [h]
theorem apply_end (c : CS) (h : c.fail = false) : c.apply .endStep = c.flush.emit .endStep := by
  unfold CS.apply; simp [h]

theorem K.init (ext : Bool) : K ({ ext := ext } : CS) [] [] := ⟨by simp, by simp [show ({ ext := ext } : CS).output = [] from rfl], rfl⟩

theorem K.emit {c : CS} {O defs} (hk : K c O defs) (hi : Inv (abs c)) (x : Call) (hx : outOf x = none) : K (c.emit x) O defs :=
  hk.of (.refl _) hi rfl (by simp [CS.emit, outsOf_append, outsOf, hx]) (fun d hd => hd)

/-- the state just before `endStep` -/
def preEnd (ext inc : Bool) (ds : List Call) : CS := ds.foldl CS.apply ((({ ext := ext } : CS).apply (.initProgram inc)).apply .beginStep)

theorem convert_step (ext inc : Bool) (ds : List Call) : convert ext (stepCalls inc ds) = (preEnd ext inc ds).apply .endStep := by
  unfold convert stepCalls preEnd
  rw [List.foldl_append, List.foldl_append]
  simp only [List.foldl_cons, List.foldl_nil]

theorem JK.pre (ext inc : Bool) (ds : List Call) (hx : ∀ d ∈ ds, PlainOk d) :
    ∃ defs, J (preEnd ext inc ds) ((rulesOf ds).filter kept) defs ∧ K (preEnd ext inc ds) (outsOf ds) defs := by
  have a1 : J (CS.apply { ext := ext } (.initProgram inc)) [] [] := by
    rw [apply_init _ rfl]; exact (J.init ext).emit _ rfl
  have b1 : K (CS.apply { ext := ext } (.initProgram inc)) [] [] := by
    rw [apply_init _ rfl]; exact (K.init ext).emit (J.init ext).inv _ rfl
  have a2 : J ((CS.apply { ext := ext } (.initProgram inc)).apply .beginStep) [] [] := by
    rw [apply_begin _ a1.nofail]; exact a1.emit _ rfl
  have b2 : K ((CS.apply { ext := ext } (.initProgram inc)).apply .beginStep) [] [] := by
    rw [apply_begin _ a1.nofail]; exact b1.emit a1.inv _ rfl
  obtain ⟨defs, h1, k1⟩ := run_plain a2 b2 ds hx
  simp only [List.nil_append] at h1 k1
  exact ⟨defs, h1, k1⟩

theorem J.step (ext inc : Bool) (ds : List Call) (hx : ∀ d ∈ ds, PlainOk d) :
    ∃ defs, J (convert ext (stepCalls inc ds)) ((rulesOf ds).filter kept) defs ∧ K (preEnd ext inc ds) (outsOf ds) defs ∧
      Steps (abs (preEnd ext inc ds)) (abs (convert ext (stepCalls inc ds))) ∧ Inv (abs (preEnd ext inc ds)) := by
  obtain ⟨defs, h1, k1⟩ := JK.pre ext inc ds hx
  refine ⟨defs, ?_, k1, ?_, h1.inv⟩
  · rw [convert_step, apply_end _ h1.nofail]
    exact h1.flush.emit _ rfl
  · rw [convert_step]; exact apply_steps _ _

/-! ### from the invariant to the abstract translation -/
def finalMap (c : CS) : Nat → Nat := fun a => (img c a).getD 0

theorem agree_final (c : CS) (hi : Inv (abs c)) : Agree c (finalMap c) := by
  intro p hp
  have := mem_img c hi.keys p.1 p.2 hp
  simp [finalMap, this]

def ctxOf (c : CS) (defs : List (Nat × Body)) : Ctx := ⟨domOf c, finalMap c, defs⟩

theorem snd_inj (l : List (Nat × Nat)) (hn : (l.map (·.2)).Nodup) (a b n : Nat) (h1 : (a, n) ∈ l) (h2 : (b, n) ∈ l) : a = b := by
  induction l with
  | nil => cases h1
  | cons p r ih =>
    simp only [List.map_cons, List.nodup_cons] at hn
    simp only [List.mem_cons] at h1 h2
    rcases h1 with h1 | h1 <;> rcases h2 with h2 | h2
    · rw [← h1] at h2; exact (Prod.mk.inj h2).1.symm
    · subst h1; exact absurd (List.mem_map_of_mem (f := (·.2)) h2) hn.1
    · subst h2; exact absurd (List.mem_map_of_mem (f := (·.2)) h1) hn.1
    · exact ih hn.2 h1 h2

theorem fst_fun {α : Type} (l : List (Nat × α)) (hn : (l.map (·.1)).Nodup) (d d' : Nat × α) (h1 : d ∈ l) (h2 : d' ∈ l) (e : d.1 = d'.1) : d = d' := by
  induction l with
  | nil => cases h1
  | cons p r ih =>
    simp only [List.map_cons, List.nodup_cons] at hn
    simp only [List.mem_cons] at h1 h2
    rcases h1 with h1 | h1 <;> rcases h2 with h2 | h2
    · rw [h1, h2]
    · subst h1; exact absurd (e ▸ List.mem_map_of_mem (f := (·.1)) h2) hn.1
    · subst h2; exact absurd (e ▸ List.mem_map_of_mem (f := (·.1)) h1) hn.1
    · exact ih hn.2 h1 h2

theorem dom_pair (c : CS) (hi : Inv (abs c)) (a : Nat) (ha : a ∈ domOf c) : (a, finalMap c a) ∈ (abs c).ids := by
  simp only [domOf, List.mem_map] at ha
  obtain ⟨p, hp, rfl⟩ := ha
  rw [agree_final c hi p hp]; exact hp

theorem ctx_ok {c : CS} {P defs} (hj : J c P defs) : (ctxOf c defs).Ok := by
  have hi := hj.inv
  refine ⟨?_, ?_, ?_, ?_, ?_, ?_, ?_⟩
  · intro a ha b hb e
    have h1 := dom_pair c hi a ha
    have h2 := dom_pair c hi b hb
    simp only [ctxOf] at e
    rw [e] at h1
    exact snd_inj _ hi.imgs a b _ h1 h2
  · intro a ha
    exact (hi.rng.1 _ (List.mem_map_of_mem (f := (·.2)) (dom_pair c hi a ha))).1
  · intro a ha d hd e
    have h1 := List.mem_map_of_mem (f := (·.2)) (dom_pair c hi a ha)
    have h2 : d.1 ∈ (abs c).aux := by
      show d.1 ∈ c.aux
      rw [← hj.keys]; exact List.mem_map_of_mem (f := (·.1)) hd
    simp only [ctxOf] at e
    rw [← e] at h1
    exact hi.disj _ h1 h2
  · intro d hd
    have h2 : d.1 ∈ (abs c).aux := by
      show d.1 ∈ c.aux
      rw [← hj.keys]; exact List.mem_map_of_mem (f := (·.1)) hd
    exact (hi.rng.2 _ h2).1
  · intro d hd d' hd' e
    have hn : (defs.map (·.1)).Nodup := by rw [hj.keys]; exact hi.auxs
    rw [fst_fun defs hn d d' hd hd' e]
  · intro d hd; exact (hj.defsOk d hd).2
  · intro d hd; exact (hj.defsOk d hd).1

theorem ctx_trans {c : CS} {P defs} (hj : J c P defs) : Trans (ctxOf c defs) P (rulesOf c.out) := by
  have h := hj.tr (finalMap c) (agree_final c hj.inv)
  exact ⟨hj.inOk, h.s1, h.s2, h.s3⟩


/-! ### what `endStep` emits for the symbol table -/
theorem mem_insertSym (x y : Nat × List Nat) (l : List (Nat × List Nat)) : y ∈ insertSym x l ↔ y = x ∨ y ∈ l := by
  induction l with
  | nil => simp [insertSym]
  | cons z r ih =>
    unfold insertSym
    split
    · simp
    · simp only [List.mem_cons, ih]
      constructor
      · rintro (h | h | h); exact Or.inr (Or.inl h); exact Or.inl h; exact Or.inr (Or.inr h)
      · rintro (h | h | h); exact Or.inr (Or.inl h); exact Or.inl h; exact Or.inr (Or.inr h)

theorem mem_sortSyms (y : Nat × List Nat) (l : List (Nat × List Nat)) : y ∈ sortSyms l ↔ y ∈ l := by
  unfold sortSyms
  have gen : ∀ (l acc : List (Nat × List Nat)), y ∈ l.foldl (fun acc x => insertSym x acc) acc ↔ y ∈ acc ∨ y ∈ l := by
    intro l
    induction l with
    | nil => intro acc; simp
    | cons x r ih =>
      intro acc
      simp only [List.foldl_cons, ih, mem_insertSym, List.mem_cons]
      constructor
      · rintro ((h | h) | h); exact Or.inr (Or.inl h); exact Or.inl h; exact Or.inr (Or.inr h)
      · rintro (h | h | h); exact Or.inl (Or.inr h); exact Or.inl (Or.inl h); exact Or.inr h
  simpa using gen l []

theorem flushExternal_none (c : CS) (h : c.externs = []) : c.flushExternal = c := by
  unfold CS.flushExternal; rw [h]; simp

theorem flushHeuristic_none (c : CS) (h : c.heur = []) : c.flushHeuristic = c := by
  unfold CS.flushHeuristic; rw [h]; simp

theorem flushMinimize_frame (c : CS) : c.flushMinimize.output = c.output ∧ outsOf c.flushMinimize.out = outsOf c.out ∧
    c.flushMinimize.externs = c.externs ∧ c.flushMinimize.heur = c.heur := by
  unfold CS.flushMinimize
  generalize c.minimize = ms
  induction ms generalizing c with
  | nil => exact ⟨rfl, rfl, rfl, rfl⟩
  | cons pl r ih =>
    simp only [List.foldl_cons]
    have h : rest (c.mapWLits pl.2 []).1 = rest c := by simp
    obtain ⟨i1, i2, i3, i4⟩ := ih ((c.mapWLits pl.2 []).1.emit (.minimize pl.1 (c.mapWLits pl.2 []).2))
    have o1 : ((c.mapWLits pl.2 []).1.emit (.minimize pl.1 (c.mapWLits pl.2 []).2)).output = c.output := by
      show (c.mapWLits pl.2 []).1.output = c.output; exact rest_output h
    have o3 : ((c.mapWLits pl.2 []).1.emit (.minimize pl.1 (c.mapWLits pl.2 []).2)).externs = c.externs := by
      show (c.mapWLits pl.2 []).1.externs = c.externs; exact congrArg (·.2.2.2.2.1) h
    have o4 : ((c.mapWLits pl.2 []).1.emit (.minimize pl.1 (c.mapWLits pl.2 []).2)).heur = c.heur := by
      show (c.mapWLits pl.2 []).1.heur = c.heur; exact congrArg (·.2.2.2.2.2.1) h
    refine ⟨i1.trans o1, i2.trans ?_, i3.trans o3, i4.trans o4⟩
    simp only [CS.emit]
    rw [outsOf_append, rest_out h]; simp [outsOf, outOf]

theorem flushSymbols_outs (c : CS) : outsOf c.flushSymbols.out = outsOf c.out ++ (sortSyms c.output).map (fun p => (p.2, [(p.1 : Int)])) := by
  unfold CS.flushSymbols
  generalize sortSyms c.output = l
  induction l generalizing c with
  | nil => simp
  | cons p r ih =>
    simp only [List.foldl_cons, List.map_cons]
    rw [ih]
    simp [CS.emit, outsOf_append, outsOf, outOf]

/-- the output directives of the emitted step: one per pending symbol, nothing else -/
theorem final_outs (c : CS) (hf : c.fail = false) (he : c.externs = []) (hh : c.heur = []) (hn : outsOf c.out = []) :
    outsOf (c.apply .endStep).out = (sortSyms c.output).map (fun p => (p.2, [(p.1 : Int)])) := by
  rw [apply_end c hf]
  obtain ⟨f1, f2, f3, f4⟩ := flushMinimize_frame c
  unfold CS.flush
  simp only [CS.emit]
  rw [flushExternal_none _ (f3.trans he), flushHeuristic_none _ (f4.trans hh)]
  rw [outsOf_append, outsOf_append, flushSymbols_outs, f1, f2, hn]
  simp [outsOf, outOf]


/-! ### minimize statements: the pending table and what `endStep` emits -/
def minOf : Call → Option (Int × List (Int × Int))
  | .minimize p ls => some (p, ls)
  | _ => none
def minsOf (cs : List Call) : List (Int × List (Int × Int)) := cs.filterMap minOf
theorem minsOf_append (a b : List Call) : minsOf (a ++ b) = minsOf a ++ minsOf b := by simp [minsOf]

/-- value of the statements of priority `p` in a table of statements -/
def costM (X : I) (m : List (Int × List (Int × Int))) (p : Int) : Int :=
  ((m.filter (fun q => q.1 == p)).map (fun q => wsum X X q.2)).sum

theorem wsum_append (X Y : I) (a b : List (Int × Int)) : wsum X Y (a ++ b) = wsum X Y a + wsum X Y b := by
  simp [wsum, List.sum_append]

theorem costM_cons (X : I) (q : Int × List (Int × Int)) (m : List (Int × List (Int × Int))) (p : Int) :
    costM X (q :: m) p = (if q.1 == p then wsum X X q.2 else 0) + costM X m p := by
  unfold costM
  by_cases h : (q.1 == p) = true
  · simp [List.filter_cons, h]
  · simp [List.filter_cons, h]

theorem costM_append (X : I) (a b : List (Int × List (Int × Int))) (p : Int) : costM X (a ++ b) p = costM X a p + costM X b p := by
  simp [costM, List.filter_append, List.sum_append]

theorem costM_single (X : I) (q : Int) (ls : List (Int × Int)) (p : Int) :
    costM X [(q, ls)] p = if q == p then wsum X X ls else 0 := by
  unfold costM
  by_cases h : q = p <;> simp [List.filter_cons, h]

theorem costM_insertMin (X : I) (m : List (Int × List (Int × Int))) (q : Int) (ls : List (Int × Int)) (p : Int) :
    costM X (insertMin m q ls) p = costM X m p + (if q == p then wsum X X ls else 0) := by
  induction m with
  | nil =>
    have : costM X [] p = 0 := rfl
    simp only [insertMin, costM_single, this]; omega
  | cons e r ih =>
    obtain ⟨k, l⟩ := e
    unfold insertMin
    split
    · rename_i hk
      have : k = q := by simpa using hk
      subst this
      rw [costM_cons, costM_cons]
      simp only
      by_cases hp : (k == p) = true
      · simp only [hp, ↓reduceIte, wsum_append]; omega
      · simp only [hp, ↓reduceIte]; simp
    · split
      · rw [costM_cons]; simp only; omega
      · rw [costM_cons, costM_cons, ih]; omega

theorem auxAtom_frameM (c : CS) (cond : List Int) :
    (c.auxAtom cond).1.minimize = c.minimize ∧ minsOf (c.auxAtom cond).1.out = minsOf c.out := by
  unfold CS.auxAtom CS.emit
  simp only
  have h := rest_mapLits { c with next := c.next + 1, aux := c.aux ++ [c.next] } cond []
  refine ⟨(congrArg (·.2.2.2.1) h).trans rfl, ?_⟩
  rw [minsOf_append, rest_out h]
  simp [minsOf, minOf]

theorem makeAtom_frameM (c : CS) (cond : List Int) (named : Bool) :
    (c.makeAtom cond named).1.minimize = c.minimize ∧ minsOf (c.makeAtom cond named).1.out = minsOf c.out := by
  unfold CS.makeAtom
  split
  · simp only
    have h := rest_mapAtom c (cond.headD 0).natAbs
    split
    · have := auxAtom_frameM (c.mapAtom (cond.headD 0).natAbs).1 cond
      exact ⟨this.1.trans (congrArg (·.2.2.2.1) h), this.2.trans (by rw [rest_out h])⟩
    · exact ⟨by show (c.mapAtom (cond.headD 0).natAbs).1.minimize = _; exact congrArg (·.2.2.2.1) h,
        by show minsOf (c.mapAtom (cond.headD 0).natAbs).1.out = _; rw [rest_out h]⟩
  · exact auxAtom_frameM c cond

/-- a plain call changes the pending minimize table only when it is a minimize statement, and emits none -/
theorem apply_frameM (c : CS) (hf : c.fail = false) (x : Call) (hx : PlainOk x) :
    (c.apply x).minimize = (match x with | .minimize p ls => insertMin c.minimize p (ls.map flipNeg) | _ => c.minimize) ∧
    minsOf (c.apply x).out = minsOf c.out := by
  cases x with
  | rule ht head body =>
    unfold CS.apply
    simp only [hf, Bool.false_eq_true, ↓reduceIte]
    split
    · have h : rest ((c.mapHead head).1.mapLits body []).1 = rest c := by simp
      refine ⟨by show ((c.mapHead head).1.mapLits body []).1.minimize = _; exact congrArg (·.2.2.2.1) h, ?_⟩
      simp only [CS.emit]
      rw [minsOf_append, rest_out h]; simp [minsOf, minOf]
    · exact ⟨rfl, rfl⟩
  | sumRule ht head bound body =>
    unfold CS.apply
    simp only [hf, Bool.false_eq_true, ↓reduceIte]
    split
    · have h : rest ((c.mapHead head).1.mapWLits body []).1 = rest c := by simp
      split
      · refine ⟨by show ((c.mapHead head).1.mapWLits body []).1.minimize = _; exact congrArg (·.2.2.2.1) h, ?_⟩
        simp only [CS.emit]
        rw [minsOf_append, rest_out h]; simp [minsOf, minOf]
      · refine ⟨by show ((c.mapHead head).1.mapWLits body []).1.minimize = _; exact congrArg (·.2.2.2.1) h, ?_⟩
        simp only [CS.emit]
        rw [minsOf_append, minsOf_append, rest_out h]; simp [minsOf, minOf]
    · exact ⟨rfl, rfl⟩
  | minimize prio lits =>
    have hany : lits.any (fun p => p.2 == I32MINc) = false := by
      rw [List.any_eq_false]; intro p hp; simpa using (hx p hp).2
    unfold CS.apply
    simp only [hf, Bool.false_eq_true, ↓reduceIte, hany]
    constructor <;> first | rfl | trivial
  | output str cond =>
    have h := makeAtom_frameM c cond true
    unfold CS.apply
    simp only [hf, Bool.false_eq_true, ↓reduceIte]
    exact ⟨h.1, h.2⟩
  | _ => exact absurd hx (by simp [PlainOk])

structure M (c : CS) (Ms : List (Int × List (Int × Int))) : Prop where
  cost  : ∀ X p, costM X c.minimize p = costM X (Ms.map (fun q => (q.1, q.2.map flipNeg))) p
  nz    : ∀ pl ∈ c.minimize, ∀ q ∈ pl.2, q.1 ≠ 0
  nomin : minsOf c.out = []

theorem flipNeg_ne (q : Int × Int) (h : q.1 ≠ 0) : (flipNeg q).1 ≠ 0 := by
  unfold flipNeg; split <;> simp <;> omega

theorem insertMin_nz (m : List (Int × List (Int × Int))) (p : Int) (ls : List (Int × Int)) (hm : ∀ pl ∈ m, ∀ q ∈ pl.2, q.1 ≠ 0)
    (hl : ∀ q ∈ ls, q.1 ≠ 0) : ∀ pl ∈ insertMin m p ls, ∀ q ∈ pl.2, q.1 ≠ 0 := by
  induction m with
  | nil => intro pl hpl; simp only [insertMin, List.mem_singleton] at hpl; subst hpl; exact hl
  | cons e r ih =>
    obtain ⟨k, l⟩ := e
    unfold insertMin
    split
    · intro pl hpl q hq
      rcases List.mem_cons.mp hpl with h | h
      · subst h
        rcases List.mem_append.mp hq with h2 | h2
        · exact hm (k, l) (by simp) q h2
        · exact hl q h2
      · exact hm pl (by simp [h]) q hq
    · split
      · intro pl hpl q hq
        rcases List.mem_cons.mp hpl with h | h
        · subst h; exact hl q hq
        · exact hm pl h q hq
      · intro pl hpl q hq
        rcases List.mem_cons.mp hpl with h | h
        · subst h; exact hm (k, l) (by simp) q hq
        · exact ih (fun pl' h' => hm pl' (by simp [h'])) pl h q hq

theorem M.step {c : CS} {Ms} (hM : M c Ms) (hf : c.fail = false) (x : Call) (hx : PlainOk x) : M (c.apply x) (Ms ++ minsOf [x]) := by
  obtain ⟨h1, h2⟩ := apply_frameM c hf x hx
  cases x with
  | minimize prio lits =>
    simp only at h1
    have e : minsOf [Call.minimize prio lits] = [(prio, lits)] := rfl
    refine ⟨?_, ?_, h2.trans hM.nomin⟩
    · intro X p
      rw [h1, costM_insertMin, hM.cost X p, e, List.map_append, costM_append]
      simp only [List.map_cons, List.map_nil, costM_single]
    · rw [h1]
      apply insertMin_nz _ _ _ hM.nz
      intro q hq
      simp only [List.mem_map] at hq
      obtain ⟨q0, hq0, rfl⟩ := hq
      exact flipNeg_ne q0 (hx q0 hq0).1
  | rule ht head body =>
    simp only at h1
    have e : minsOf [Call.rule ht head body] = [] := rfl
    rw [e, List.append_nil]
    exact ⟨fun X p => by rw [h1]; exact hM.cost X p, by rw [h1]; exact hM.nz, h2.trans hM.nomin⟩
  | sumRule ht head bound body =>
    simp only at h1
    have e : minsOf [Call.sumRule ht head bound body] = [] := rfl
    rw [e, List.append_nil]
    exact ⟨fun X p => by rw [h1]; exact hM.cost X p, by rw [h1]; exact hM.nz, h2.trans hM.nomin⟩
  | output str cond =>
    simp only at h1
    have e : minsOf [Call.output str cond] = [] := rfl
    rw [e, List.append_nil]
    exact ⟨fun X p => by rw [h1]; exact hM.cost X p, by rw [h1]; exact hM.nz, h2.trans hM.nomin⟩
  | _ => exact absurd hx (by simp [PlainOk])

theorem run_plainM {c : CS} {P O defs Ms} (hj : J c P defs) (hk : K c O defs) (hM : M c Ms) (ds : List Call) (hx : ∀ d ∈ ds, PlainOk d) :
    ∃ defs', J (ds.foldl CS.apply c) (P ++ (rulesOf ds).filter kept) defs' ∧ K (ds.foldl CS.apply c) (O ++ outsOf ds) defs' ∧
      M (ds.foldl CS.apply c) (Ms ++ minsOf ds) := by
  induction ds generalizing c P O defs Ms with
  | nil => exact ⟨defs, by simpa [rulesOf] using hj, by simpa [outsOf] using hk, by simpa [minsOf] using hM⟩
  | cons d r ih =>
    obtain ⟨defs1, h1, k1⟩ := apply_plain hj hk d (hx d (by simp))
    have m1 := hM.step hj.nofail d (hx d (by simp))
    obtain ⟨defs2, h2, k2, m2⟩ := ih h1 k1 m1 (fun e he => hx e (by simp [he]))
    refine ⟨defs2, ?_, ?_, ?_⟩
    · have : rulesOf (d :: r) = rulesOf [d] ++ rulesOf r := by rw [← rulesOf_append]; rfl
      rw [this, List.filter_append, ← List.append_assoc]
      exact h2
    · have : outsOf (d :: r) = outsOf [d] ++ outsOf r := by rw [← outsOf_append]; rfl
      rw [this, ← List.append_assoc]
      exact k2
    · have : minsOf (d :: r) = minsOf [d] ++ minsOf r := by rw [← minsOf_append]; rfl
      rw [this, ← List.append_assoc]
      exact m2


theorem abs_flushSymbols (c : CS) : abs c.flushSymbols = abs c := by
  unfold CS.flushSymbols
  generalize sortSyms c.output = l
  induction l generalizing c with
  | nil => rfl
  | cons p r ih => simp only [List.foldl_cons]; rw [ih]; rfl

theorem flushSymbols_mins (c : CS) : minsOf c.flushSymbols.out = minsOf c.out := by
  unfold CS.flushSymbols
  generalize sortSyms c.output = l
  induction l generalizing c with
  | nil => rfl
  | cons p r ih =>
    simp only [List.foldl_cons]
    rw [ih]
    simp [CS.emit, minsOf_append, minsOf, minOf]

def renW (m : Nat → Nat) (ls : List (Int × Int)) : List (Int × Int) := ls.map (fun q => (renLit m q.1, q.2))

theorem flushMinimize_mins (c : CS) (hi : Inv (abs c)) (m : Nat → Nat) (ha : Agree c.flushMinimize m) :
    minsOf c.flushMinimize.out = minsOf c.out ++ c.minimize.map (fun pl => (pl.1, renW m pl.2)) ∧
    ∀ pl ∈ c.minimize, ∀ q ∈ pl.2, q.1.natAbs ∈ domOf c.flushMinimize := by
  unfold CS.flushMinimize at ha ⊢
  generalize c.minimize = ms at ha ⊢
  induction ms generalizing c with
  | nil => exact ⟨by simp, by intro pl h; cases h⟩
  | cons pl r ih =>
    simp only [List.foldl_cons] at ha ⊢
    have hs1 := mapWLits_steps c pl.2 []
    have hi1 := steps_inv' hs1 hi
    have hi1' : Inv (abs ((c.mapWLits pl.2 []).1.emit (.minimize pl.1 (c.mapWLits pl.2 []).2))) := hi1
    obtain ⟨i1, i2⟩ := ih _ hi1' ha
    have hsr : Steps (abs ((c.mapWLits pl.2 []).1.emit (.minimize pl.1 (c.mapWLits pl.2 []).2)))
        (abs (r.foldl (fun c pl => (c.mapWLits pl.2 []).1.emit (.minimize pl.1 (c.mapWLits pl.2 []).2))
          ((c.mapWLits pl.2 []).1.emit (.minimize pl.1 (c.mapWLits pl.2 []).2)))) :=
      foldl_steps _ (fun c pl => by simpa using mapWLits_steps c pl.2 []) r _
    have hv := mapWLits_val c hi pl.2 [] m (agree_back hsr hi1' ha)
    refine ⟨?_, ?_⟩
    · rw [i1]
      simp only [CS.emit, minsOf_append, List.map_cons, List.append_assoc]
      have hout : (c.mapWLits pl.2 []).1.out = c.out := rest_out (by simp)
      rw [hout, hv]
      simp [minsOf, minOf, renW]
    · intro pl' hpl' q hq
      rcases List.mem_cons.mp hpl' with h | h
      · subst h
        exact dom_mono hsr hi1' _ (mapWLits_dom c hi pl'.2 [] q hq)
      · exact i2 pl' h q hq

/-- the minimize statements of the emitted step: the pending table, renamed; all their atoms are mapped -/
theorem final_mins (c : CS) (hf : c.fail = false) (he : c.externs = []) (hh : c.heur = []) (hn : minsOf c.out = []) (hi : Inv (abs c))
    (m : Nat → Nat) (ha : Agree (c.apply .endStep) m) :
    minsOf (c.apply .endStep).out = c.minimize.map (fun pl => (pl.1, renW m pl.2)) ∧
    ∀ pl ∈ c.minimize, ∀ q ∈ pl.2, q.1.natAbs ∈ domOf (c.apply .endStep) := by
  obtain ⟨f1, f2, f3, f4⟩ := flushMinimize_frame c
  have hfl : c.flush = { (c.flushMinimize.flushSymbols.emit (.assume [-1])) with minimize := [], externs := [], heur := [], output := [] } := by
    unfold CS.flush
    simp only
    rw [flushExternal_none _ (f3.trans he), flushHeuristic_none _ (f4.trans hh)]
  have habs : abs (c.apply .endStep) = abs c.flushMinimize := by
    rw [apply_end c hf, hfl]
    exact abs_flushSymbols c.flushMinimize
  have ha' : Agree c.flushMinimize m := by unfold Agree; rw [← habs]; exact ha
  obtain ⟨g1, g2⟩ := flushMinimize_mins c hi m ha'
  refine ⟨?_, ?_⟩
  · rw [apply_end c hf, hfl]
    simp only [CS.emit]
    rw [minsOf_append, minsOf_append, flushSymbols_mins, g1, hn]
    simp [minsOf, minOf]
  · intro pl hpl q hq
    unfold domOf; rw [habs]; exact g2 pl hpl q hq


theorem M.init (ext : Bool) : M ({ ext := ext } : CS) [] :=
  ⟨fun _ _ => rfl, (by intro pl h; cases h), rfl⟩

theorem M.emit {c : CS} {Ms} (hM : M c Ms) (x : Call) (hx : minOf x = none) : M (c.emit x) Ms :=
  ⟨hM.cost, hM.nz, (by
    show minsOf (c.out ++ [x]) = []
    rw [minsOf_append, hM.nomin]; simp [minsOf, hx])⟩

/-- all three invariants hold just before `endStep` -/
theorem JKM.pre (ext inc : Bool) (ds : List Call) (hx : ∀ d ∈ ds, PlainOk d) :
    ∃ defs, J (preEnd ext inc ds) ((rulesOf ds).filter kept) defs ∧ K (preEnd ext inc ds) (outsOf ds) defs ∧ M (preEnd ext inc ds) (minsOf ds) := by
  have a1 : J (CS.apply { ext := ext } (.initProgram inc)) [] [] := by
    rw [apply_init _ rfl]; exact (J.init ext).emit _ rfl
  have b1 : K (CS.apply { ext := ext } (.initProgram inc)) [] [] := by
    rw [apply_init _ rfl]; exact (K.init ext).emit (J.init ext).inv _ rfl
  have c1 : M (CS.apply { ext := ext } (.initProgram inc)) [] := by
    rw [apply_init _ rfl]; exact (M.init ext).emit _ rfl
  have a2 : J ((CS.apply { ext := ext } (.initProgram inc)).apply .beginStep) [] [] := by
    rw [apply_begin _ a1.nofail]; exact a1.emit _ rfl
  have b2 : K ((CS.apply { ext := ext } (.initProgram inc)).apply .beginStep) [] [] := by
    rw [apply_begin _ a1.nofail]; exact b1.emit a1.inv _ rfl
  have c2 : M ((CS.apply { ext := ext } (.initProgram inc)).apply .beginStep) [] := by
    rw [apply_begin _ a1.nofail]; exact c1.emit _ rfl
  obtain ⟨defs, h1, k1, m1⟩ := run_plainM a2 b2 c2 ds hx
  simp only [List.nil_append] at h1 k1 m1
  exact ⟨defs, h1, k1, m1⟩

end PotasscoVerif.C02
