import PotasscoVerif.Drv.Calls
import PotasscoVerif.Model.Convert
namespace PotasscoVerif.Drv
open PotasscoVerif

/-- `cv <ext> <call>*` -/
def runCV (args : List String) : String :=
  match args with
  | e :: rest =>
    match rest.mapM parseCall with
    | some cs =>
      let c := Convert.convert (e == "1") cs
      let g := ((List.range 41).drop 1).filterMap (fun a => (c.find a).map (fun x => s!"{a}={x.smId}"))
      joinSp (c.out.map showCall ++ (if c.fail then ["EXC"] else []) ++ [s!"M:{c.next - 1}", "G:" ++ (if c.fail then "" else "/".intercalate g)])
    | none => "bad-op"
  | _ => "bad-op"

end PotasscoVerif.Drv
