import PotasscoVerif.Drv.Util
import PotasscoVerif.Model.Options
namespace PotasscoVerif.Drv
open PotasscoVerif.Options

/-- `o:<hexname>:<alias>:<props>[:<heximpl>:<hexdefault>:<hexarg>:<hexdesc>:<level>:<group>:<kind>]` -/
def parseOptSpec (t : String) : Option OptSpec :=
  match t.splitOn ":" with
  | "o" :: n :: a :: props :: rest => do
    let name ← unhex n
    let alias ← a.toNat?
    let has (c : Char) := props.toList.contains c
    let opt (i : Nat) : Option (List Nat) := match rest[i]? with
      | some "~" => none
      | some h => unhex h
      | none => none
    pure { name := name, alias := alias, implicit := has 'i' || has 'f', flag := has 'f', negatable := has 'n', composing := has 'c',
           implVal := opt 0, dflt := opt 1, arg := opt 2, desc := (opt 3).getD [],
           level := ((rest[4]?).bind String.toNat?).getD 0, group := ((rest[5]?).bind String.toNat?).getD 0,
           kind := ((rest[6]?).bind String.toNat?).getD 0, glevel := ((rest[7]?).bind String.toNat?).getD 0 }
  | _ => none

def showErr : Err → String
  | .unknown k => s!"ERR:unknown:{hex k}"
  | .ambiguous k => s!"ERR:ambiguous:{hex k}"
  | .missingValue k => s!"ERR:missing:{hex k}"
  | .extraValue k => s!"ERR:extra:{hex k}"
  | .invalidFormat l => s!"ERR:format:{hex l}"

def showValues (vs : List (Nat × List Nat)) : String :=
  if vs.isEmpty then "-" else ";".intercalate (vs.map (fun p => s!"{p.1}={hex p.2}"))

def buildCtx : Context → List String → Option (Context × List String)
  | c, t :: ts =>
    if t.startsWith "o:" then
      match parseOptSpec t with
      | some o => match c.add o with
        | some c' => buildCtx c' ts
        | none => none
      | none => none
    else some (c, t :: ts)
  | c, [] => some (c, [])

/-- `op <a|s|c> <allowUnreg> <allowFlagValue> <posName|-> <o:…>* <T:hex>* | S:<hex> | F:<hex>` -/
def runOP (args : List String) : String :=
  match args with
  | mode :: au :: af :: pn :: rest =>
    match buildCtx {} rest with
    | none => "DUP"
    | some (c, toks) =>
      let allowU := au == "1"
      let allowF := af == "1"
      let pos := if pn == "~" then none else unhex pn
      let payload := toks.filterMap (fun t => match t.splitOn ":" with | ["N", _] => none | ["J", _] => none | [_, h] => unhex h | _ => none)
      let junk := toks.filterMap (fun t => match t.splitOn ":" with | ["J", h] => unhex h | _ => none)
      let argcGiven := (toks.filterMap (fun t => match t.splitOn ":" with | ["N", k] => k.toNat? | _ => none)).head?
      match mode with
      | "a" =>
        -- the real entry point: argv = "prog", the tokens, a null pointer, the junk cells; argc as given (1..count) or the real count
        let cells : List (Option (List Nat)) := some ("prog".toList.map Char.toNat) :: (payload.map some ++ none :: junk.map some)
        let argc0 := match argcGiven with
          | some k => if 1 ≤ k && k ≤ payload.length + 1 then k else payload.length + 1
          | none => payload.length + 1
        match cmdLine c allowU allowF pos argc0 cells with
        | .ok (p, argc, cells') =>
          let rem := ((cells'.take argc).drop 1).filterMap id
          let vec := cells'.map (fun x => match x with | some t => hex t | none => "~")
          s!"{showValues p.values}|R:{",".intercalate (rem.map hex)}|V:{",".intercalate vec}"
        | .error e => showErr e
      | "s" => match parseString c allowU allowF pos (payload.headD []) with
        | .ok p => s!"{showValues p.values}|R:"        -- parseCommandString does not report the remaining tokens
        | .error e => showErr e
      | "c" => match parseCfg c allowU (payload.headD []) with
        | .ok vs => s!"{showValues vs}|R:"
        | .error e => showErr e
      | "t" => ",".intercalate ((tokenize (payload.headD [])).map hex)
      | _ => "bad-op"
  | _ => "bad-op"

end PotasscoVerif.Drv
