import PotasscoVerif.Drv.Util
import PotasscoVerif.Model.RuleBuilder
import PotasscoVerif.Spec.RuleSpec
namespace PotasscoVerif.Drv
open PotasscoVerif.RuleBuilder PotasscoVerif.RuleSpec

def showView (v : View) : String :=
  let h := ",".intercalate (v.head.map toString)
  let b := ",".intercalate (v.body.map (fun p => s!"{p.1}={p.2}"))
  s!"{v.ht}|{h}|{v.bt}|{v.bound}|{b}"

/-- generic interpreter over a builder type: `step` per single-builder op, plus copy/assign/swap. -/
structure Iface (σ : Type) where
  init  : σ
  start : σ → Nat → Option σ
  addHead : σ → Int → Option σ
  startBody : σ → Option σ
  startSum : σ → Int → Option σ
  startMinimize : σ → Int → Option σ
  addGoal : σ → Int → Int → Option σ
  setBound : σ → Int → Option σ
  clearHead : σ → Option σ
  clearBody : σ → Option σ
  clear : σ → σ
  weaken : σ → Nat → Bool → Option σ
  end_ : σ → σ
  copy : σ → σ
  view : σ → View
  bad  : σ → Bool

def ifaceRB : Iface RB :=
  { init := RB.init, start := RB.start, addHead := RB.addHead, startBody := RB.startBody, startSum := RB.startSum,
    startMinimize := RB.startMinimize, addGoal := RB.addGoal, setBound := RB.setBound, clearHead := fun r => some r.clearHead,
    clearBody := fun r => some r.clearBody, clear := RB.clear, weaken := RB.weaken, end_ := RB.end_, copy := RB.copy,
    view := RB.view, bad := fun r => r.viol || !r.viewOk }

def ifaceAR : Iface AR :=
  { init := AR.init, start := AR.start, addHead := AR.addHead, startBody := AR.startBody, startSum := AR.startSum,
    startMinimize := AR.startMinimize, addGoal := AR.addGoal, setBound := AR.setBound, clearHead := AR.clearHead,
    clearBody := AR.clearBody, clear := fun _ => AR.init, weaken := AR.weaken, end_ := AR.end_, copy := id,
    view := AR.view, bad := fun _ => false }

def getB {σ} (bs : List σ) (i : Nat) (d : σ) : σ := bs.getD i d

/-- returns the output tokens; stops at the first assertion failure (`A`). -/
def runOps {σ} (I : Iface σ) : List String → List σ → List String → List String
  | [], _, acc => acc.reverse
  | t :: ts, bs, acc =>
    let f := t.splitOn ":"
    let nat (s : String) := s.toNat?.getD 0
    let int (s : String) := s.toInt?.getD 0
    let one (i : Nat) (r : Option σ) : List String :=
      match r with
      | none => ("A" :: acc).reverse
      | some b =>
        let bs' := bs.set i b
        runOps I ts bs' ((if I.bad b then "VIOL" else showView (I.view b)) :: acc)
    match f with
    | ["S", i, ht] => one (nat i) (I.start (getB bs (nat i) I.init) (nat ht))
    | ["H", i, a] => one (nat i) (I.addHead (getB bs (nat i) I.init) (int a))
    | ["B", i] => one (nat i) (I.startBody (getB bs (nat i) I.init))
    | ["U", i, b] => one (nat i) (I.startSum (getB bs (nat i) I.init) (int b))
    | ["M", i, p] => one (nat i) (I.startMinimize (getB bs (nat i) I.init) (int p))
    | ["G", i, l, w] => one (nat i) (I.addGoal (getB bs (nat i) I.init) (int l) (int w))
    | ["b", i, b] => one (nat i) (I.setBound (getB bs (nat i) I.init) (int b))
    | ["ch", i] => one (nat i) (I.clearHead (getB bs (nat i) I.init))
    | ["cb", i] => one (nat i) (I.clearBody (getB bs (nat i) I.init))
    | ["c", i] => one (nat i) (some (I.clear (getB bs (nat i) I.init)))
    | ["W", i, to, w] => one (nat i) (I.weaken (getB bs (nat i) I.init) (nat to) (w == "1"))
    | ["E", i] => one (nat i) (some (I.end_ (getB bs (nat i) I.init)))
    | ["cp", i, j] => one (nat j) (some (I.copy (getB bs (nat i) I.init)))      -- b[j] := RuleBuilder(b[i])
    | ["as", i, j] => one (nat j) (some (I.copy (getB bs (nat i) I.init)))      -- b[j] = b[i]
    | ["sw", i, j] =>
      let bi := getB bs (nat i) I.init
      let bj := getB bs (nat j) I.init
      let bs' := (bs.set (nat i) bj).set (nat j) bi
      runOps I ts bs' (s!"{showView (I.view bj)};{showView (I.view bi)}" :: acc)
    | _ => ("bad-op" :: acc).reverse

/-- `rb <op>*` : concrete memory-block model, 3 builders. -/
def runRB (args : List String) : String := joinSp (runOps ifaceRB args [RB.init, RB.init, RB.init] [])
/-- `rs <op>*` : abstract spec (an `A` means: outside the protocol). -/
def runRS (args : List String) : String := joinSp (runOps ifaceAR args [AR.init, AR.init, AR.init] [])

end PotasscoVerif.Drv
