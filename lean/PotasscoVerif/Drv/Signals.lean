import PotasscoVerif.Drv.Util
import PotasscoVerif.Model.Signals
namespace PotasscoVerif.Drv
open PotasscoVerif.Signals

def parseMain (s : String) : Option (List MainOp) :=
  if s == "-" then some [] else (s.splitOn ",").mapM fun t =>
    match t with
    | "b" => some .block | "u1" => some (.unblock true) | "u0" => some (.unblock false) | "w" => some .work
    | _ => none

def parseChoice (t : String) : Option Choice :=
  if t == "s1" then some (.step true) else if t == "s0" then some (.step false)
  else if t.startsWith "a" then (t.drop 1).toNat?.map .arrive else none

/-- yield id of the step the top of the stack will execute (0 = start of a main operation). -/
def yieldId (s : St) : Nat :=
  match s.stack with
  | [] => 0
  | .ps _ _ pc _ :: _ => match pc with
    | .inc => 1 | .callStart => 2 | .inCall => 6 | .checkPending => 3 | .setPending => 4 | .dec => 5
  | .ub _ pc _ :: _ => match pc with
    | .dec => 10 | .xchg => 11 | .clear => 13 | .deliver => 12

def showEv : Ev → Option String
  | .callStart sig _ => some s!"C{sig}"
  | .callEnd sig _ r => some s!"R{sig}:{bit r}"
  | _ => none

/-- runs the schedule and prints, per executed `step`, `<yield id>:<blocked>:<pending>` of the state it was
    executed in, interleaved with the callback events. -/
def traceRun (pristine : Bool) : Nat → St → List Choice → List String → (St × List String)
  | 0, s, _, acc => (s, acc)
  | f + 1, s, cs, acc =>
    let (c, cs', draining) := match cs with
      | [] => (Choice.step true, [], true)
      | c :: r => (c, r, false)
    match step pristine s c with
    | none => if draining then (s, acc) else traceRun pristine f s cs' acc
    | some s' =>
      let snap := match c with
        | .step _ => [s!"{yieldId s}:{s.blocked}:{s.pending.1}"]
        | .arrive _ => []
      let evs := (s'.log.drop s.log.length).filterMap showEv
      traceRun pristine f s' cs' (acc ++ snap ++ evs)

/-- `sg <main> <choice>*` -/
def runSG (args : List String) : String :=
  match args with
  | m :: cs =>
    match parseMain m, cs.mapM parseChoice with
    | some main, some choices =>
      let (s, out) := traceRun false (4 * (choices.length + main.length) + 200) (St.init main) choices []
      joinSp (out ++ [s!"F{s.blocked}:{s.pending.1}"])
    | _, _ => "bad-op"
  | _ => "bad-op"

end PotasscoVerif.Drv
