import PotasscoVerif.Drv.Util
import PotasscoVerif.Model.StringBuilder
namespace PotasscoVerif.Drv
open PotasscoVerif.StringBuilder

def parseSbOp (t : String) : Option Op :=
  match t.splitOn ":" with
  | ["a", h] => (unhex h).map .append
  | ["s", h] => (unhex h).map .append
  | ["c", n, c] => do pure (.append (List.replicate (← n.toNat?) (← c.toNat?)))
  | ["i", x] => x.toInt?.map .num
  | ["f", p, o] => do pure (.format (← unhex p) (← unhex o) true)
  | ["g", p, x] => do pure (.format (← unhex p) (numText (← x.toInt?)) true)
  | ["p", p] => do pure (.format (← unhex p) [] false)
  | ["r", n, c] => do pure (.resize (← n.toNat?) (← c.toNat?))
  | ["k"] => some .clear
  | _ => none

def sbLoop : SB → List Op → List String → List String
  | _, [], acc => acc.reverse
  | b, op :: ops, acc =>
    match b.step op with
    | none => sbLoop b ops ("X" :: acc)
    | some b' => sbLoop b' ops ((if b'.viol then "VIOL" else s!"{hex b'.text}:{b'.text.length}:e{bit b'.errno}") :: acc)

/-- `sb <kind 0|1|2|3> <cap-or-hexinit> <op>*` -/
def runSB (args : List String) : String :=
  match args with
  | k :: p :: ops =>
    match ops.mapM parseSbOp with
    | none => "bad-op"
    | some ops =>
      let b0 : Option SB := match k with
        | "0" => some mkSbo
        | "1" => (unhex p).map mkStr
        | "2" => p.toNat?.map (fun n => mkBuf n false)
        | "3" => p.toNat?.map (fun n => mkBuf n true)
        | _ => none
      match b0 with
      | some b => joinSp (sbLoop b ops [])
      | none => "bad-op"
  | _ => "bad-op"

end PotasscoVerif.Drv
