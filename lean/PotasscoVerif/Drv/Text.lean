import PotasscoVerif.Drv.Calls
import PotasscoVerif.Model.TextIn
import PotasscoVerif.Model.TextOut
namespace PotasscoVerif.Drv
open PotasscoVerif

/-- `tr <C|I> <hex>` -/
def runTR (args : List String) : String :=
  match args with
  | [mode, h] =>
    match unhex h with
    | some bytes =>
      let r := if mode == "I" then TextIn.readInc bytes else TextIn.read bytes   -- `I`: accept + parse(Incremental) while more() (C10_modes)
      joinSp (r.calls.map showCall ++ [match r.err with | none => "OK" | some l => s!"ERR:{l}:1"])
    | none => "bad-op"
  | _ => "bad-op"

/-- `tw <call>*` -/
def runTW (args : List String) : String :=
  match args.mapM parseCall with
  | some cs =>
    let t := TextOut.write cs
    (if t.fail then "EXC " else "") ++ hex t.out
  | none => "bad-op"

end PotasscoVerif.Drv
