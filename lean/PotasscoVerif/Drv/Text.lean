import PotasscoVerif.Drv.Calls
import PotasscoVerif.Model.TextIn
namespace PotasscoVerif.Drv
open PotasscoVerif

/-- `tr <C|I> <hex>` -/
def runTR (args : List String) : String :=
  match args with
  | [_, h] =>
    match unhex h with
    | some bytes =>
      let r := TextIn.read bytes
      joinSp (r.calls.map showCall ++ [match r.err with | none => "OK" | some l => s!"ERR:{l}:1"])
    | none => "bad-op"
  | _ => "bad-op"

end PotasscoVerif.Drv
