import PotasscoVerif.Drv.Options
import PotasscoVerif.Model.OptAssign
namespace PotasscoVerif.Drv
open PotasscoVerif.Options PotasscoVerif.OptAssign

def showIntsOA (l : List Int) : String := if l.isEmpty then "e" else ".".intercalate (l.map toString)

def showStored (kind : Nat) : Stored → String
  | .int v => toString v
  | .str s => hex s
  | .flag b => toString b
  | .vec l => showIntsOA l
  | .log l => if l.isEmpty then "e" else ".".intercalate (l.map hex)
  | .slot v lg => (match v with | some w => toString w | none => "n") ++ (if kind == 8 then "@" ++ showIntsOA lg else "")

def showAErr : Option AErr → String
  | none => "ok"
  | some (.multiple n v) => s!"ERR:multiple:{hex n}:{hex v}"
  | some (.invalid n v) => s!"ERR:invalid:{hex n}:{hex v}"
  | some (.invalidDefault n v) => s!"ERR:default:{hex n}:{hex v}"

def showAState (c : Context) (s : AState) : String :=
  let p := String.join (c.opts.map (fun o => bit (s.parsed.contains o.name)))
  let v := ",".intercalate ((c.opts.zip s.slots).map (fun os => showStored os.1.kind os.2.val))
  let st := String.join (s.slots.map (fun sl => toString sl.state))
  s!"P:{p}#{s.parsed.length}|V:{v}|S:{st}"

def parseVals (t : String) : Option (List (Nat × List Nat)) :=
  if t == "-" then some [] else
  (t.splitOn ";").mapM (fun kv => match kv.splitOn "=" with
    | [k, h] => do let k' ← k.toNat?; let v ← unhex h; pure (k', v)
    | _ => none)

def parseStep (t : String) : Option Step :=
  match t.splitOn ":" with
  | ["D"] => some .defaults
  | ["A", ex, vals] => do
    let e ← if ex == "~" then pure none else if ex == "-" then pure (some []) else (ex.splitOn ",").mapM unhex |>.map some
    let v ← parseVals vals
    pure (.source v e)
  | _ => none

/-- `oa <o:…>* <A:<excl>:<vals> | D>*` -/
def runOA (args : List String) : String :=
  match buildCtx {} args with
  | none => "DUP"
  | some (c, toks) =>
    match toks.mapM parseStep with
    | none => "bad-op"
    | some steps =>
      if steps.any (fun st => match st with | .source vals _ => vals.any (fun kv => decide (kv.1 ≥ c.opts.length)) | _ => false) then "bad-op" else
      let r := steps.foldl (fun (acc : AState × List String) st =>
        let r := step c acc.1 st
        (r.1, acc.2 ++ [showAErr r.2 ++ "|" ++ showAState c r.1])) (AState.init c, [])
      " / ".intercalate r.2

end PotasscoVerif.Drv
