import PotasscoVerif.Drv.Calls
import PotasscoVerif.Model.AspifOut
import PotasscoVerif.Model.AspifIn
namespace PotasscoVerif.Drv
open PotasscoVerif

/-- `aw <call>*` -/
def runAW (args : List String) : String :=
  match args.mapM parseCall with
  | some cs => hex (AspifOut.write cs)
  | none => "bad-op"

/-- `ar <C|I> <hex>` : the model reads the whole program in both modes (C01_modes: same calls). -/
def runAR (args : List String) : String :=
  match args with
  | [_, h] =>
    match unhex h with
    | some bytes =>
      let r := AspifIn.read bytes
      joinSp (r.calls.map showCall ++ [match r.err with | none => "OK" | some l => s!"ERR:{l}:1"])
    | none => "bad-op"
  | _ => "bad-op"

end PotasscoVerif.Drv
