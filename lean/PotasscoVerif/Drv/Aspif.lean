import PotasscoVerif.Drv.Calls
import PotasscoVerif.Model.AspifOut
import PotasscoVerif.Model.AspifIn
namespace PotasscoVerif.Drv
open PotasscoVerif

/-- `aw <call>*` -/
def runAW (args : List String) : String :=
  match args.mapM parseCall with
  | some cs => hex (AspifOut.write cs)
  | none => "bad-op"

/-- `ar <C|I> <hex>` : `C` = `readProgram` (one go), `I` = `accept` + `parse(Incremental)` while `more()` (C01_modes: same result). -/
def runAR (args : List String) : String :=
  match args with
  | [mode, h] =>
    match unhex h with
    | some bytes =>
      let r := if mode == "I" then AspifIn.readInc bytes else AspifIn.read bytes
      joinSp (r.calls.map showCall ++ [match r.err with | none => "OK" | some l => s!"ERR:{l}:1"])
    | none => "bad-op"
  | _ => "bad-op"

end PotasscoVerif.Drv
