import PotasscoVerif.Drv.Util
import PotasscoVerif.Model.Program
namespace PotasscoVerif.Drv
open PotasscoVerif

def showList {α} (f : α → String) (l : List α) : String := if l.isEmpty then "-" else "/".intercalate (l.map f)
def showNats (l : List Nat) : String := showList toString l
def showInts (l : List Int) : String := showList toString l
def showWL (l : List (Int × Int)) : String := showList (fun p => s!"{p.1}:{p.2}") l

def showCall : Call → String
  | .initProgram inc => s!"I{bit inc}"
  | .beginStep => "B"
  | .endStep => "E"
  | .rule ht h b => s!"R,{ht},{showNats h},{showInts b}"
  | .sumRule ht h bnd b => s!"S,{ht},{showNats h},{bnd},{showWL b}"
  | .minimize p l => s!"M,{p},{showWL l}"
  | .project a => s!"P,{showNats a}"
  | .output n c => s!"O,{hex n},{showInts c}"
  | .external a v => s!"X,{a},{v}"
  | .assume l => s!"A,{showInts l}"
  | .heuristic a t bias prio c => s!"H,{a},{t},{bias},{prio},{showInts c}"
  | .acycEdge s t c => s!"G,{s},{t},{showInts c}"
  | .theoryNum id n => s!"TN,{id},{n}"
  | .theorySym id n => s!"TS,{id},{hex n}"
  | .theoryCompound id c a => s!"TC,{id},{c},{showNats a}"
  | .theoryElement id t c => s!"TE,{id},{showNats t},{showInts c}"
  | .theoryAtom a t e none => s!"TA,{a},{t},{showNats e}"
  | .theoryAtom a t e (some (op, rhs)) => s!"TG,{a},{t},{showNats e},{op},{rhs}"

def parseList {α} (f : String → Option α) (s : String) : Option (List α) :=
  if s == "-" then some [] else (s.splitOn "/").mapM f
def pNats := parseList String.toNat?
def pInts := parseList String.toInt?
def pWL := parseList (fun s => match s.splitOn ":" with
  | [a, b] => do let x ← a.toInt?; let y ← b.toInt?; pure (x, y)
  | _ => none)

def parseCall (w : String) : Option Call :=
  match w.splitOn "," with
  | ["I0"] => some (.initProgram false)
  | ["I1"] => some (.initProgram true)
  | ["B"] => some .beginStep
  | ["E"] => some .endStep
  | ["R", ht, h, b] => do pure (.rule (← ht.toNat?) (← pNats h) (← pInts b))
  | ["S", ht, h, bnd, b] => do pure (.sumRule (← ht.toNat?) (← pNats h) (← bnd.toInt?) (← pWL b))
  | ["M", p, l] => do pure (.minimize (← p.toInt?) (← pWL l))
  | ["P", a] => do pure (.project (← pNats a))
  | ["O", n, c] => do pure (.output (← unhex n) (← pInts c))
  | ["X", a, v] => do pure (.external (← a.toNat?) (← v.toNat?))
  | ["A", l] => do pure (.assume (← pInts l))
  | ["H", a, t, bias, prio, c] => do pure (.heuristic (← a.toNat?) (← t.toNat?) (← bias.toInt?) (← prio.toNat?) (← pInts c))
  | ["G", s, t, c] => do pure (.acycEdge (← s.toInt?) (← t.toInt?) (← pInts c))
  | ["TN", id, n] => do pure (.theoryNum (← id.toNat?) (← n.toInt?))
  | ["TS", id, n] => do pure (.theorySym (← id.toNat?) (← unhex n))
  | ["TC", id, c, a] => do pure (.theoryCompound (← id.toNat?) (← c.toInt?) (← pNats a))
  | ["TE", id, t, c] => do pure (.theoryElement (← id.toNat?) (← pNats t) (← pInts c))
  | ["TA", a, t, e] => do pure (.theoryAtom (← a.toNat?) (← t.toNat?) (← pNats e) none)
  | ["TG", a, t, e, op, rhs] => do pure (.theoryAtom (← a.toNat?) (← t.toNat?) (← pNats e) (some ((← op.toNat?), (← rhs.toNat?))))
  | _ => none

end PotasscoVerif.Drv
