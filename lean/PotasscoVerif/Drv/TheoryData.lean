import PotasscoVerif.Drv.Calls
import PotasscoVerif.Model.TheoryData
import PotasscoVerif.Model.TheoryPrint
namespace PotasscoVerif.Drv
open PotasscoVerif.TheoryData

def showTerm : Term → String
  | .num n => s!"n{n}"
  | .sym s => s!"s{hex s}"
  | .comp b a => s!"c{b}({showNats a})"

def dump (d : TD) (W : Nat) : String :=
  let ts := (List.range W).map (fun i => (match d.getTerm i with | some t => showTerm t | none => "-") ++ (if d.isNewTerm i then "*" else ""))
  let es := (List.range W).map (fun i => (match d.getElem i with | some e => s!"{showNats e.terms}:{e.cond}" | none => "-") ++ (if d.isNewElem i then "*" else ""))
  let as := d.atoms.map (fun a => s!"{a.atom}:{a.term}:{showNats a.elems}" ++ (match a.guard with | some (o, r) => s!":{o}:{r}" | none => ""))
  s!"T[{",".intercalate ts}]E[{",".intercalate es}]A[{",".intercalate as}]cb{d.fAtom}L{d.live}"

def showSeen : Seen → String
  | .atom i => s!"a{i}" | .term i => s!"t{i}" | .elem i => s!"e{i}" | .missing => "?"

def showVisit (d : TD) (cur : Bool) : String :=
  match d.visit cur with
  | some l => if l.isEmpty then "-" else ",".intercalate (l.map showSeen)
  | none => "EXC"

def tdStep (d : TD) (t : String) : Option (Option TD) :=   -- outer none: bad op; inner none: exception
  match t.splitOn ":" with
  | ["tn", id, n] => do pure (d.addTerm (← id.toNat?) (.num (← n.toInt?)))
  | ["ts", id, h] => do pure (d.addTerm (← id.toNat?) (.sym (← unhex h)))
  | ["tf", id, f, a] => do pure (d.addTerm (← id.toNat?) (.comp (← f.toNat?) (← pNats a)))
  | ["tt", id, ty, a] => do pure (d.addTerm (← id.toNat?) (.comp (← ty.toInt?) (← pNats a)))
  | ["rm", id] => do pure (some (d.removeTerm (← id.toNat?)))
  | ["el", id, ts, c] => do pure (d.addElement (← id.toNat?) (← pNats ts) (← c.toNat?))
  | ["at", a, tm, es] => do pure (some (d.addAtom { atom := (← a.toNat?), term := (← tm.toNat?), elems := (← pNats es), guard := none }))
  | ["ag", a, tm, es, o, r] => do pure (some (d.addAtom { atom := (← a.toNat?), term := (← tm.toNat?), elems := (← pNats es), guard := some ((← o.toNat?), (← r.toNat?)) }))
  | ["sc", id, c] => do pure (d.setCondition (← id.toNat?) (← c.toNat?))
  | ["fl", m] => do let m ← m.toNat?; pure (some (d.filter (fun a => a.atom % m == 0)))
  | ["up"] => some (some d.update)
  | ["rs"] => some (some d.reset)
  | _ => none

def tdLoop (W : Nat) : TD → List String → List String → List String
  | d, [], acc => (s!"V[{showVisit d false}]C[{showVisit d true}]P[{";".intercalate ((d.printTermsBelow W ++ d.printAtoms).map showCall)}]" :: acc).reverse
  | d, t :: ts, acc =>
    match tdStep d t with
    | none => ("bad-op" :: acc).reverse
    | some none => tdLoop W d ts ("X" :: acc)
    | some (some d') => tdLoop W d' ts (dump d' W :: acc)

def runTD (args : List String) : String :=
  match args with
  | w :: ops => match w.toNat? with
    | some W => joinSp (tdLoop W {} ops [])
    | none => "bad-op"
  | [] => "bad-op"

end PotasscoVerif.Drv
