import PotasscoVerif.Drv.Calls
import PotasscoVerif.Model.SmodelsIn
import PotasscoVerif.Model.SmodelsOut
import PotasscoVerif.Model.SmodelsSym
namespace PotasscoVerif.Drv
open PotasscoVerif

/-- `sw <ext 0|1> <falseAtom> <call>*` : bytes written, then OK / ERR -/
def runSW (args : List String) : String :=
  match args with
  | e :: f :: cs =>
    match f.toNat?, cs.mapM parseCall with
    | some f, some cs =>
      let (bytes, ok) := SmodelsOut.write (e == "1") f cs
      s!"{hex bytes} {if ok then "OK" else "ERR"}"
    | _, _ => "bad-op"
  | _ => "bad-op"

/-- `sr <ext 0|1> <hex>` -/
def runSR (args : List String) : String :=
  match args with
  | [e, h] =>
    match unhex h with
    | some bytes =>
      let r := SmodelsIn.read (e == "1") bytes
      joinSp (r.calls.map showCall ++ [match r.err with | none => "OK" | some l => s!"ERR:{l}:1"])
    | none => "bad-op"
  | _ => "bad-op"

/-- `sri <ext> <hex>`: accept + parse(Incremental) while more() (C05_modes) -/
def runSRI (args : List String) : String :=
  match args with
  | [e, h] =>
    match unhex h with
    | some bytes =>
      let r := SmodelsIn.readInc (e == "1") bytes
      joinSp (r.calls.map showCall ++ [match r.err with | none => "OK" | some l => s!"ERR:{l}:1"])
    | none => "bad-op"
  | _ => "bad-op"

/-- `so <ext><cEdge><cHeu><filter> <hex>` -/
def runSO (args : List String) : String :=
  match args with
  | [o, h] =>
    match o.toList, unhex h with
    | [e, ce, ch, fl], some bytes =>
      let r := SmodelsSym.read { ext := e == '1', cEdge := ce == '1', cHeu := ch == '1', filter := fl == '1' } bytes
      joinSp (r.calls.map showCall ++ [match r.err with | none => "OK" | some l => s!"ERR:{l}:1"])
    | _, _ => "bad-op"
  | _ => "bad-op"

end PotasscoVerif.Drv
