import PotasscoVerif.Drv.Calls
import PotasscoVerif.Model.SmodelsIn
import PotasscoVerif.Model.SmodelsOut
namespace PotasscoVerif.Drv
open PotasscoVerif

/-- `sw <ext 0|1> <falseAtom> <call>*` : bytes written, then OK / ERR -/
def runSW (args : List String) : String :=
  match args with
  | e :: f :: cs =>
    match f.toNat?, cs.mapM parseCall with
    | some f, some cs =>
      let (bytes, ok) := SmodelsOut.write (e == "1") f cs
      s!"{hex bytes} {if ok then "OK" else "ERR"}"
    | _, _ => "bad-op"
  | _ => "bad-op"

/-- `sr <ext 0|1> <hex>` -/
def runSR (args : List String) : String :=
  match args with
  | [e, h] =>
    match unhex h with
    | some bytes =>
      let r := SmodelsIn.read (e == "1") bytes
      joinSp (r.calls.map showCall ++ [match r.err with | none => "OK" | some l => s!"ERR:{l}:1"])
    | none => "bad-op"
  | _ => "bad-op"

end PotasscoVerif.Drv
