import PotasscoVerif.Drv.Util
import PotasscoVerif.Model.OptIndex
namespace PotasscoVerif.Drv
open PotasscoVerif.OptIndex

def ftOf (s : String) : Option FindType :=
  match s with | "1" => some .name | "2" => some .pfx | "3" => some .nameOrPrefix | "4" => some .alias | _ => none

def showFound : Found → String
  | .opt k => s!"={k}"
  | .unknown => "U"
  | .ambiguous ns => "A" ++ ",".intercalate (ns.map hex)

/- (an iterator equal to `end()` — index = number of options, possible only through the entry a refused add left behind — is what the
    harness prints as "-" for `tryFind`) -/
/-- `oi <o:hexname:alias | a:hexalias:opt | q:hexkey:type>*` -/
def oiLoop : Ctx → List String → List String → List String
  | _, [], acc => acc.reverse
  | c, t :: ts, acc =>
    match t.splitOn ":" with
    | ["o", n, a] =>
      match unhex n, a.toNat? with
      | some n, some a => match c.addOption n a with
        | some c' => oiLoop c' ts ("ok" :: acc)
        | none => oiLoop (c.afterRefused a) ts ("DUP" :: acc)      -- the caller goes on using the context
      | _, _ => ("bad-op" :: acc).reverse
    | ["a", n, o] =>
      match unhex n, o.toNat? with
      | some n, some o => match c.addAlias n o with
        | some c' => oiLoop c' ts ("ok" :: acc)
        | none => oiLoop c ts ("DUP" :: acc)
      | _, _ => ("bad-op" :: acc).reverse
    | ["q", k, ty] =>
      match unhex k, ftOf ty with
      | some k, some ty =>
        let r := s!"{showFound (find c.index k ty)}/{match tryFind c.index k ty with | some o => (if o == c.nOpts then "-" else s!"={o}") | none => "-"}"
        oiLoop c ts (r :: acc)
      | _, _ => ("bad-op" :: acc).reverse
    | _ => ("bad-op" :: acc).reverse

def runOI (args : List String) : String := joinSp (oiLoop {} args [])

end PotasscoVerif.Drv
