import PotasscoVerif.Drv.Util
import PotasscoVerif.Model.OptIndex
namespace PotasscoVerif.Drv
open PotasscoVerif.OptIndex

def ftOf (s : String) : Option FindType :=
  match s with | "1" => some .name | "2" => some .pfx | "3" => some .nameOrPrefix | "4" => some .alias | _ => none

def showFound : Found → String
  | .opt k => s!"={k}"
  | .unknown => "U"
  | .ambiguous ns => "A" ++ ",".intercalate (ns.map hex)

/- (an iterator equal to `end()` — index = number of options, possible only through the entry a refused add left behind — is what the
    harness prints as "-" for `tryFind`) -/
/- `oi <o:hexname:alias | a:hexalias:opt | q:hexkey:type | O:hexname:alias | A:hexalias:opt | m:-:0>*` -/
/-- the second context (`O:`/`A:` tokens): its own index (for refusals inside it) and its options (name, alias, group) in order of addition -/
structure Other where
  ctx  : Ctx := {}
  opts : List (List Nat × Nat × Nat) := []

def oiLoop2 : Ctx → Other → List String → List String → List String
  | _, _, [], acc => acc.reverse
  | c, o, t :: ts, acc =>
    match t.splitOn ":" with
    | ["O", n, a] =>
      match unhex n, a.toNat? with
      | some n, some a => match o.ctx.addOption n a with
        | some c' => oiLoop2 c { ctx := c', opts := o.opts ++ [(n, a, o.opts.length % 2)] } ts ("ok" :: acc)
        | none => oiLoop2 c { o with ctx := o.ctx.afterRefused a } ts ("DUP" :: acc)
      | _, _ => ("bad-op" :: acc).reverse
    | ["A", n, k] =>
      match unhex n, k.toNat? with
      | some n, some k => match o.ctx.addAlias n k with
        | some c' => oiLoop2 c { o with ctx := c' } ts ("ok" :: acc)
        | none => oiLoop2 c o ts ("DUP" :: acc)
      | _, _ => ("bad-op" :: acc).reverse
    | ["m", _, _] =>
      let r := c.addCtx o.opts
      oiLoop2 r.1 o ts ((if r.2 then "ok" else "DUP") :: acc)
    | ["o", n, a] =>
      match unhex n, a.toNat? with
      | some n, some a => match c.addOption n a with
        | some c' => oiLoop2 c' o ts ("ok" :: acc)
        | none => oiLoop2 (c.afterRefused a) o ts ("DUP" :: acc)
      | _, _ => ("bad-op" :: acc).reverse
    | ["a", n, k] =>
      match unhex n, k.toNat? with
      | some n, some k => match c.addAlias n k with
        | some c' => oiLoop2 c' o ts ("ok" :: acc)
        | none => oiLoop2 c o ts ("DUP" :: acc)
      | _, _ => ("bad-op" :: acc).reverse
    | ["q", k, ty] =>
      match unhex k, ftOf ty with
      | some k, some ty =>
        let r := s!"{showFound (find c.index k ty)}/{match tryFind c.index k ty with | some o => (if o == c.nOpts then "-" else s!"={o}") | none => "-"}"
        oiLoop2 c o ts (r :: acc)
      | _, _ => ("bad-op" :: acc).reverse
    | _ => ("bad-op" :: acc).reverse

def oiLoop : Ctx → List String → List String → List String
  | _, [], acc => acc.reverse
  | c, t :: ts, acc =>
    match t.splitOn ":" with
    | ["o", n, a] =>
      match unhex n, a.toNat? with
      | some n, some a => match c.addOption n a with
        | some c' => oiLoop c' ts ("ok" :: acc)
        | none => oiLoop (c.afterRefused a) ts ("DUP" :: acc)      -- the caller goes on using the context
      | _, _ => ("bad-op" :: acc).reverse
    | ["a", n, o] =>
      match unhex n, o.toNat? with
      | some n, some o => match c.addAlias n o with
        | some c' => oiLoop c' ts ("ok" :: acc)
        | none => oiLoop c ts ("DUP" :: acc)
      | _, _ => ("bad-op" :: acc).reverse
    | ["q", k, ty] =>
      match unhex k, ftOf ty with
      | some k, some ty =>
        let r := s!"{showFound (find c.index k ty)}/{match tryFind c.index k ty with | some o => (if o == c.nOpts then "-" else s!"={o}") | none => "-"}"
        oiLoop c ts (r :: acc)
      | _, _ => ("bad-op" :: acc).reverse
    | _ => ("bad-op" :: acc).reverse

def runOI (args : List String) : String := joinSp (oiLoop2 {} {} args [])

end PotasscoVerif.Drv
