import PotasscoVerif.Drv.Options
import PotasscoVerif.Model.OptFormat
namespace PotasscoVerif.Drv
open PotasscoVerif.Options PotasscoVerif.OptFormat

/-- the options printed, in print order (the same list as `C19.printedOpts`) -/
def C19p.printed (c : Context) (dl : Nat) : List Nat :=
  (printOrder c).flatMap (fun g => if groupLevel c g ≤ dl then (members c g).filter (fun k => (optOf c k).level ≤ dl) else [])

/-- `of <level> <n> <o:…>*` -/
def runOF (args : List String) : String :=
  match args with
  | lv :: n :: rest =>
    match lv.toNat?, n.toNat?, buildCtx {} rest with
    | some lv, some n, some (c, []) =>
      let dl := activeLevel lv
      if descriptionViol c dl then "VIOL:sprintf-overrun" else
      let defs := defaults c dl n
      let back := match parseString c false true none defs with
        | .ok p => showValues p.values
        | .error e => showErr e
      let blog := ",".intercalate ((C19p.printed c dl).map (fun k => let b := formatOpt (optOf c k) (maxWidth c dl); s!"{b.text.length}/{b.cap}"))
      s!"D:{hex (description c dl)}|F:{hex defs}|P:{back}|B:{blog}"
    | _, _, none => "DUP"
    | _, _, _ => "bad-op"
  | _ => "bad-op"

end PotasscoVerif.Drv
