import PotasscoVerif.Drv.Calls
import PotasscoVerif.Spec.AspCalls
namespace PotasscoVerif.Drv
open PotasscoVerif

/-- `asp <atoms a:b:c or -> <call>*`: the stable models of the rules and (compiled-away) externals among the calls (Spec/Asp.lean, Spec/AspCalls.lean `progOf`), each a sub-list of the given atoms
    in the order of enumeration; `x1.x2|x3|` … ; `-` for the empty model -/
def runASP (args : List String) : String :=
  match args with
  | ats :: rest =>
    let atoms := if ats == "-" then some [] else (ats.splitOn ":").mapM String.toNat?
    match atoms, rest.mapM parseCall with
    | some atoms, some cs =>
      let ms := Asp.stableModels (C02.progOf cs) atoms
      let sh (m : List Nat) : String := if m.isEmpty then "-" else ".".intercalate (m.map toString)
      "|".intercalate (ms.map sh) ++ s!" n={ms.length}"
    | _, _ => "bad-op"
  | _ => "bad-op"

end PotasscoVerif.Drv
