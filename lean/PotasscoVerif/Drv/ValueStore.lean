import PotasscoVerif.Drv.Util
import PotasscoVerif.Model.ValueStore
namespace PotasscoVerif.Drv
open PotasscoVerif.ValueStore

def showHolders (s : VS) : String :=
  ",".intercalate (s.holders.map (fun h => match h with
    | some o => s!"{o.ty}:{o.val}:{o.id}:{bit o.heap}"
    | none => "E"))

def vsStep (s : VS) (t : String) : Option (VS × String) :=
  match t.splitOn ":" with
  | ["set", i, ty, v] => do let s' := s.step (.set (← i.toNat?) (← ty.toNat?) (← v.toInt?)); pure (s', showHolders s')
  | ["cp", i, j] => do let s' := s.step (.copy (← i.toNat?) (← j.toNat?)); pure (s', showHolders s')
  | ["sw", i, j] => do let s' := s.step (.swap (← i.toNat?) (← j.toNat?)); pure (s', showHolders s')
  | ["ad", i, ty, v] => do let s' := s.step (.adopt (← i.toNat?) (← ty.toNat?) (← v.toInt?)); pure (s', showHolders s')
  | ["cl", i] => do let s' := s.step (.clear (← i.toNat?)); pure (s', showHolders s')
  | ["su", i] => do let s' := s.step (.surrender (← i.toNat?)); pure (s', showHolders s')
  | ["ra", i] => do let s' := s.step (.readopt (← i.toNat?)); pure (s', showHolders s')
  | ["sa", i] => do let s' := s.step (.selfAssign (← i.toNat?)); pure (s', showHolders s')
  | ["vc", i, ty] => do
      let r := s.cast (← i.toNat?) (← ty.toNat?)
      pure (s, match r with | some v => s!"v{v}" | none => "badcast")
  | _ => none

def vsLoop : VS → List String → List String → List String
  | s, [], acc =>
    let f := s.destroyAll
    let all := List.range' 1 (f.nextId - 1)
    let d := all.map (fun id => s!"{id}:{(f.destroyed.filter (· == id)).length}{if f.surrendered.contains id then "s" else ""}")
    (s!"D[{",".intercalate d}]" :: acc).reverse
  | s, t :: ts, acc =>
    match vsStep s t with
    | none => ("bad-op" :: acc).reverse
    | some (s', o) => vsLoop s' ts (o :: acc)

/-- `vs <op>*` : four holders -/
def runVS (args : List String) : String := joinSp (vsLoop (VS.init 4) args [])

def showRC (r : RC) : String :=
  let ps := r.ptrs.map (fun p => match p with | some o => s!"{o}/{r.count o}" | none => "0")
  s!"{",".intercalate ps}|F{",".intercalate (r.freed.map toString)}"

def rcLoop : RC → List String → List String → List String
  | _, [], acc => acc.reverse
  | r, t :: ts, acc =>
    let r' := match t.splitOn ":" with
      | ["new", i] => i.toNat?.map r.fresh
      | ["as", i, j] => do pure (r.assign (← i.toNat?) (← j.toNat?))
      | ["rs", i] => i.toNat?.map r.reset
      | ["sw", i, j] => do pure (r.swap (← i.toNat?) (← j.toNat?))
      | _ => none
    match r' with
    | none => ("bad-op" :: acc).reverse
    | some r' => rcLoop r' ts (showRC r' :: acc)

/-- `rc <op>*` : four shared pointers -/
def runRC (args : List String) : String := joinSp (rcLoop { ptrs := List.replicate 4 none, counts := [] } args [])

end PotasscoVerif.Drv
