import PotasscoVerif.Drv.Util
import PotasscoVerif.Model.BufferedStream
import PotasscoVerif.Spec.CharStream
namespace PotasscoVerif.Drv
open PotasscoVerif.BufferedStream PotasscoVerif.CharStream

def parseOp (t : String) : Option Op :=
  match t.splitOn ":" with
  | ["p"] => some .peek
  | ["g"] => some .get
  | ["w"] => some .skipWs
  | ["i"] => some (.matchInt false)
  | ["I"] => some (.matchInt true)
  | ["e"] => some .atEnd
  | ["l"] => some .line
  | ["u", n] => n.toNat?.map .unget
  | ["m", h] => (unhex h).map .matchTok
  | ["c", n] => n.toNat?.map .copy
  | _ => none

def showObs : Obs → String
  | .char c => s!"c{c}"
  | .bool b => s!"b{bit b}"
  | .int .fail => "iF"
  | .int (.val v) => s!"i{v}"
  | .bytes bs => s!"x{hex bs}"
  | .nat n => s!"n{n}"
  | .unit => "_"
  | .assertFail => "A"

instance (B : Nat) (a : AS) (op : Op) : Decidable (Adm B a op) := by
  cases op <;> simp only [Adm] <;> exact inferInstance

def admAll (B : Nat) : AS → List Op → Bool
  | _, [] => true
  | a, op :: ops => decide (Adm B a op) && admAll B (a.step op).2 ops

/-- `bs <B> <hexinput> <op>*` : observations of the buffer model, then `V0|V1` (ghost flag). -/
def runBS (args : List String) : String :=
  match args with
  | b :: inp :: ops =>
    match b.toNat?, unhex inp, ops.mapM parseOp with
    | some B, some input, some ops =>
      let obs := BufferedStream.run B (BS.init B input) ops
      joinSp (obs.map showObs)
    | _, _, _ => "bad-op"
  | _ => "bad-op"

/-- `as <B> <hexinput> <op>*` : observations of the abstract stream, then `ADM0|ADM1`. -/
def runAS (args : List String) : String :=
  match args with
  | b :: inp :: ops =>
    match b.toNat?, unhex inp, ops.mapM parseOp with
    | some B, some input, some ops =>
      let obs := AS.run (AS.init input) ops
      joinSp (obs.map showObs ++ [s!"ADM{bit (admAll B (AS.init input) ops && input.all (· != 0) && decide (2 ≤ B))}"])
    | _, _, _ => "bad-op"
  | _ => "bad-op"

end PotasscoVerif.Drv
