import PotasscoVerif.Drv.Util
import PotasscoVerif.Model.StringConvert
namespace PotasscoVerif.Drv
open PotasscoVerif.StringConvert

def sRange (t : String) : Option (Int × Int) :=
  match t with
  | "i32" => some (-2147483648, 2147483647)
  | "i64" => some (LLMIN, LLMAX)
  | "l64" => some (LLMIN, LLMAX)
  | _ => none
def uRange (t : String) : Option Nat :=
  match t with
  | "u32" => some 4294967295
  | "u64" => some ULLMAX
  | "ul64" => some ULLMAX
  | _ => none

/-- `sc <type> p <hex>` parse / `sc <type> w <value>` write -/
def runSC (args : List String) : String :=
  match args with
  | ["enumc", rep, lo, hi, op, arg] =>
    match unhex rep, lo.toInt?, hi.toInt? with
    | some r, some lo, some hi =>
      let e : EnumClass := { rep := r.takeWhile (· != 0), min := lo, max := hi }
      if op == "s" then
        match unhex arg with
        | some t =>
          let res := e.parse (t.takeWhile (· != 0))
          match res.2 with
          | some v => if res.1 == 0 then "n:0:-" else s!"n:{res.1}:{v}"
          | none => "n:0:-"
        | none => "bad-op"
      else if op == "i" then
        match arg.toInt? with
        | some v => match e.nameOf v with
          | some nm => if nm.isEmpty then "none" else hex nm
          | none => "none"
        | none => "bad-op"
      else "bad-op"
    | _, _, _ => "bad-op"
  | [t, "p", h] =>
    match unhex h with
    | none => "bad-op"
    | some x =>
      if t == "pair" then
        let r := parsePair (fun s => parseSigned s (-2147483648) 2147483647) (fun s => parseUnsigned s 4294967295) 44 (x.takeWhile (· != 0)) ((0 : Int), (0 : Nat))
        s!"tok{r.1}:{r.2.1.1},{r.2.1.2}:{r.2.2}"
      else if t == "vec" then
        let r := parseSeq (fun s => parseSigned s (-2147483648) 2147483647) 44 (x.takeWhile (· != 0))
        s!"tok{r.1.length}:{",".intercalate (r.1.map toString)}:{r.2}"
      else
      match sRange t, uRange t with
      | some (lo, hi), _ => match parseSigned x lo hi with
        | some (v, e) => s!"ok:{v}:{e}" | none => "fail:0"
      | _, some um => match parseUnsigned x um with
        | some (v, e) => s!"ok:{v}:{e}" | none => "fail:0"
      | _, _ =>
        if t == "bool" then match parseBool x with
          | .none => "fail:0" | .keep => "keep" | .val b e => s!"ok:{bit b}:{e}"
        else if t == "char" then match parseChar x with
          | none => "fail:0" | some (c, e) => s!"ok:{c}:{e}"
        else "bad-op"
  | [t, "w", v] =>
    if t == "pair" then
      match v.splitOn "," with
      | [a, b] => match a.toInt?, b.toNat? with
        | some a, some b => hex (showPair showSigned (fun u => showUnsigned u 4294967295) 44 (a, b))
        | _, _ => "bad-op"
      | _ => "bad-op"
    else if t == "vec" then
      if v == "-" then hex [] else
      match (v.splitOn ",").mapM (·.toInt?) with
      | some vs => hex (showSeq showSigned 44 vs)
      | none => "bad-op"
    else
    match sRange t, uRange t with
    | some _, _ => match v.toInt? with | some x => hex (showSigned x) | none => "bad-op"
    | _, some um => match v.toNat? with | some x => hex (showUnsigned x um) | none => "bad-op"
    | _, _ =>
      if t == "bool" then hex (showBool (v == "1"))
      else if t == "char" then match v.toNat? with | some c => hex [c] | none => "bad-op"
      else "bad-op"
  | _ => "bad-op"

end PotasscoVerif.Drv
