/-
  Helpers for the line-protocol driver (parsing/printing only; nothing here is part of a model).
-/
namespace PotasscoVerif.Drv

def hexVal (c : Char) : Option Nat :=
  if '0' ≤ c ∧ c ≤ '9' then some (c.toNat - 48)
  else if 'a' ≤ c ∧ c ≤ 'f' then some (c.toNat - 87)
  else if 'A' ≤ c ∧ c ≤ 'F' then some (c.toNat - 55)
  else none

/-- "-" or "" is the empty byte string; otherwise pairs of hex digits. -/
def unhex (s : String) : Option (List Nat) :=
  if s == "-" then some [] else
  let rec go : List Char → List Nat → Option (List Nat)
    | [], acc => some acc.reverse
    | [_], _ => none
    | a :: b :: r, acc => do
      let x ← hexVal a
      let y ← hexVal b
      go r ((x * 16 + y) :: acc)
  go s.toList []

def hexDigit (n : Nat) : Char := if n < 10 then Char.ofNat (48 + n) else Char.ofNat (87 + n)

def hex (bs : List Nat) : String :=
  if bs.isEmpty then "-" else
  String.ofList (bs.foldr (fun b acc => hexDigit (b / 16 % 16) :: hexDigit (b % 16) :: acc) [])

def parseInt? (s : String) : Option Int := s.toInt?

def words (s : String) : List String := (s.splitOn " ").filter (· ≠ "")

def joinSp (l : List String) : String := " ".intercalate l

def bit (b : Bool) : String := if b then "1" else "0"

end PotasscoVerif.Drv
